"""C54 — reified conditionals are declaratively sound (DESIGN §6 C54).

Three-way comparison by ground completion over U = {a, b, f(a), f(b)}:
  (i)   if_(C, R = then, R = else)                          (library(reif))
  (ii)  ( C+, R = then ; C-, R = else ) written with =/dif   (explicit twin, same machine)
  (iii) the truth table of C computed in Python.
For every grounding (x, y) of X, Y compatible with the pre-bindings, (i) must
produce exactly one ground answer, with R = then iff C is true of (x, y);
(ii) must produce the same set. The derived predicates tfilter/3,
tpartition/4, memberd_t/3, tmember/2 (and the reified (=)/3, dif/3 called
directly with T free/true/false) are compared the same way with explicit
twins written with =/dif and with Python list semantics.
"""
import itertools

from vx.core import px
from vx.core.terms import V, fmt, unlist

ID = "C54"
LEVEL = "exploration"
ENGINE = "PEX"
TECHNIQUE = "three-way differential: if_/3 vs explicit (=, dif) disjunction vs Python truth table, by ground completion"
RULE = ("all conditions A=B, dif(A,B) and (C1,C2), (C1;C2) of atomic C1, C2 over A,B in {X,Y,a,b,f(X),f(a)} "
        "(quick: compounds over {X,Y,a,f(X)}), x 18 pre-binding patterns (X,Y each free/a/b/f(a), X=Y, X=f(Y)); "
        "reified =/3, dif/3 with T free/true/false; tfilter, tpartition, memberd_t, tmember over all lists of "
        "length <= 3 over {a,b,X,Y,f(X)}; besides the ground completions the multiset of answers (branch outcome, whether "
        "the binding is a rational tree) is compared with the explicit twin. Non-trivial: a variable of the condition/list is unbound at call time.")
LEVEL_TEXT = ("bounded exhaustive input-space exploration; every answer (bindings + residual dif/2) is compared "
              "semantically through all its ground completions, so residual constraints are part of the comparison")
ASSUMPTIONS = ["findall/3, member/2, catch/3, copy_term/3 + acyclic_term/1 on a copy (rational-tree test)", "Python structural equality of ground terms",
               "conditions that would build cyclic terms (X = f(X)) are included; a cyclic binding has no ground completion"]
MIN_OUTCOMES = 4

X, Y = V("X"), V("Y")
TERMS_FULL = [X, Y, "a", "b", ("f", X), ("f", "a")]
TERMS_Q = [X, Y, "a", ("f", X)]
U = ["a", "b", ("f", "a"), ("f", "b")]
PRE_VALS = [None, "a", "b", ("f", "a")]

HELPERS = r"""
:- use_module(library(reif)).
:- use_module(library(dif)).
:- use_module(library(lists)).

c54_m(V) :- member(V, [a, b, f(a), f(b)]).
c54_run(T, G, L) :- catch(findall(T, G, L), E, c54_err(E, L)).
% is the answer's binding of Vars a rational tree?  (tested on an attribute-free copy, so the
% original and its constraints are untouched)
c54_cyc(Vars, F) :- ( \+ \+ ( copy_term(Vars, C, _), acyclic_term(C) ) -> F = acyclic ; F = cyclic ).
c54_len(L, N) :- length(L, N).
c54_err(E, L) :- ( nonvar(E), E = error(F, _) -> L = exc(F) ; L = exc(ball(E)) ).

% explicit twins written with (=)/2 and dif/2 only
c54_tfilter([], _, []).
c54_tfilter([E|Es], A, Fs0) :- ( A = E, Fs0 = [E|Fs] ; dif(A, E), Fs0 = Fs ), c54_tfilter(Es, A, Fs).
c54_tpartition([], _, [], []).
c54_tpartition([E|Es], A, Ts0, Fs0) :-
    ( A = E, Ts0 = [E|Ts], Fs0 = Fs ; dif(A, E), Fs0 = [E|Fs], Ts0 = Ts ),
    c54_tpartition(Es, A, Ts, Fs).
c54_memberd_t([], _, false).
c54_memberd_t([X|Xs], E, T) :- ( X = E, T = true ; dif(X, E), c54_memberd_t(Xs, E, T) ).
c54_tmember(E, [X|Xs]) :- ( E = X ; dif(E, X), c54_tmember(E, Xs) ).
c54_eq_t(A, B, T) :- ( A = B, T = true ; dif(A, B), T = false ).
c54_dif_t(A, B, T) :- ( dif(A, B), T = true ; A = B, T = false ).
"""


def bound_text(tier):
    return ("conditions of depth <= 2 over %d terms (compounds over %d terms), 18 pre-binding patterns; "
            "lists of length <= 3 over {a,b,X,Y}" % (len(TERMS_FULL), len(TERMS_FULL) if tier == "thorough" else len(TERMS_Q)))


# ---------------------------------------------------------------------------
# space

def atoms_over(ts):
    return [(op, a, b) for op in ("=", "dif") for a in ts for b in ts]


def conds(tier):
    out = list(atoms_over(TERMS_FULL))
    base = atoms_over(TERMS_FULL if tier == "thorough" else TERMS_Q)
    for op in (",", ";"):
        for c1 in base:
            for c2 in base:
                out.append((op, c1, c2))
    return out


def prebinds():
    out = [{"X": x, "Y": y} for x in PRE_VALS for y in PRE_VALS]
    out.append({"alias": True})
    out.append({"X": ("f", Y), "Y": None})   # Y = f(X) then has only a rational-tree unifier
    return out


def lists3():
    el = ["a", "b", X, Y, ("f", X)]
    out = []
    for n in range(0, 4):
        for t in itertools.product(el, repeat=n):
            out.append(list(t))
    return out


NSH = {"quick": 32, "thorough": 96}


def shards(tier):
    n = NSH[tier]
    return [("if", i, n) for i in range(n)] + [("der", i, 8) for i in range(8)]


# ---------------------------------------------------------------------------
# text

def tt(t):
    return fmt(t)


def cond_text(c):
    op = c[0]
    if op == "=":
        return "%s = %s" % (tt(c[1]), tt(c[2]))
    if op == "dif":
        return "dif(%s,%s)" % (tt(c[1]), tt(c[2]))
    return "(%s %s %s)" % (cond_text(c[1]), op, cond_text(c[2]))


def pos_text(c):
    op = c[0]
    if op == "=":
        return "%s = %s" % (tt(c[1]), tt(c[2]))
    if op == "dif":
        return "dif(%s,%s)" % (tt(c[1]), tt(c[2]))
    if op == ",":
        return "(%s , %s)" % (pos_text(c[1]), pos_text(c[2]))
    return "(%s ; %s , %s)" % (pos_text(c[1]), neg_text(c[1]), pos_text(c[2]))


def neg_text(c):
    op = c[0]
    if op == "=":
        return "dif(%s,%s)" % (tt(c[1]), tt(c[2]))
    if op == "dif":
        return "%s = %s" % (tt(c[1]), tt(c[2]))
    if op == ",":
        return "(%s ; %s , %s)" % (neg_text(c[1]), pos_text(c[1]), neg_text(c[2]))
    return "(%s , %s)" % (neg_text(c[1]), neg_text(c[2]))


def pre_text(pb):
    if pb.get("alias"):
        return "X = Y"
    parts = []
    for n in ("X", "Y"):
        if pb.get(n) is not None:
            parts.append("%s = %s" % (n, tt(tup(pb[n]))))
    return ", ".join(parts) if parts else "true"


def tup(t):
    """JSON round trip turns tuples into lists"""
    if isinstance(t, list):
        return tuple(tup(a) for a in t)
    if isinstance(t, dict) and "v" in t:
        return V(t["v"])
    return t


def jt(t):
    if isinstance(t, V):
        return {"v": t.n}
    if isinstance(t, tuple):
        return [jt(a) for a in t]
    return t


# ---------------------------------------------------------------------------
# Python semantics

def subst(t, env):
    if isinstance(t, V):
        return env[t.n]
    if isinstance(t, tuple):
        return (t[0],) + tuple(subst(a, env) for a in t[1:])
    return t


def truth(c, env):
    op = c[0]
    if op == "=":
        return subst(c[1], env) == subst(c[2], env)
    if op == "dif":
        return subst(c[1], env) != subst(c[2], env)
    if op == ",":
        return truth(c[1], env) and truth(c[2], env)
    return truth(c[1], env) or truth(c[2], env)


def groundings(pb):
    if pb.get("alias"):
        return [{"X": u, "Y": u} for u in U]
    ys = [tup(pb["Y"])] if pb.get("Y") is not None else U
    out = []
    for y in ys:
        xs = [subst(tup(pb["X"]), {"Y": y})] if pb.get("X") is not None else U
        for x in xs:
            if x in U:          # the completion goal enumerates both variables over U
                out.append({"X": x, "Y": y})
    return out


def cond_vars(c, acc=None):
    acc = set() if acc is None else acc
    if isinstance(c, V):
        acc.add(c.n)
    elif isinstance(c, (tuple, list)):
        for a in c[1:] if isinstance(c, tuple) else c:
            cond_vars(a, acc)
    return acc


def free_vars(pb):
    if pb.get("alias"):
        return {"X", "Y"}
    fv = {n for n in ("X", "Y") if pb.get(n) is None}
    if pb.get("X") is not None and cond_vars(("t", tup(pb["X"]))):
        fv.add("Y")
    return fv


def mklist_py(el):
    from vx.core.terms import mklist
    return mklist(el)


# ---------------------------------------------------------------------------
# cases: each is a dict(kind=..., ...) that is JSON-able; build() gives
# (goal text, expected multiset as sorted list of tuples, nontrivial)

COMPLETE = ", c54_m(X), c54_m(Y)"


def build(case):
    k = case["kind"]
    pb = case["pre"]
    pre = pre_text(pb)
    gs = groundings(pb)
    if k == "if":
        c = tup(case["cond"])
        g1 = "%s, if_(%s, R = then, R = else), c54_m(X), c54_m(Y)" % (pre, cond_text(c))
        g2 = "%s, ( %s, R = then ; %s, R = else ), c54_m(X), c54_m(Y)" % (pre, pos_text(c), neg_text(c))
        templ = "[R,X,Y]"
        exp = [("then" if truth(c, e) else "else", e["X"], e["Y"]) for e in gs]
        nt = bool(cond_vars(c) & free_vars(pb))
    elif k == "reif":
        # direct call of (=)/3 or dif/3 with T free / true / false
        c = tup(case["cond"])
        tv = case["t"]
        name = "=" if c[0] == "=" else "dif"
        twin = "c54_eq_t" if c[0] == "=" else "c54_dif_t"
        tpre = "" if tv is None else "T = %s, " % tv
        g1 = "%s, %s%s(%s,%s,T), c54_m(X), c54_m(Y)" % (pre, tpre, name, tt(c[1]), tt(c[2]))
        g2 = "%s, %s%s(%s,%s,T), c54_m(X), c54_m(Y)" % (pre, tpre, twin, tt(c[1]), tt(c[2]))
        templ = "[T,X,Y]"
        exp = []
        for e in gs:
            v = "true" if truth(c, e) else "false"
            if tv is None or tv == v:
                exp.append((v, e["X"], e["Y"]))
        nt = bool(cond_vars(c) & free_vars(pb))
    else:
        L = tup(case["list"])
        ltxt = tt(mklist_py(list(L)))
        E = tup(case.get("e", "a"))
        etxt = tt(E)
        nt = bool((cond_vars(list(L)) | cond_vars(("t", E))) & free_vars(pb))
        exp = []
        if k == "tfilter":
            g1 = "%s, tfilter(=(%s), %s, O), c54_m(X), c54_m(Y)" % (pre, etxt, ltxt)
            g2 = "%s, c54_tfilter(%s, %s, O), c54_m(X), c54_m(Y)" % (pre, ltxt, etxt)
            templ = "[O,X,Y]"
            for e in gs:
                ev = subst(E, e)
                lv = [subst(x, e) for x in L]
                exp.append((mklist_py([x for x in lv if x == ev]), e["X"], e["Y"]))
        elif k == "tpartition":
            g1 = "%s, tpartition(=(%s), %s, O1, O2), c54_m(X), c54_m(Y)" % (pre, etxt, ltxt)
            g2 = "%s, c54_tpartition(%s, %s, O1, O2), c54_m(X), c54_m(Y)" % (pre, ltxt, etxt)
            templ = "[O1-O2,X,Y]"
            for e in gs:
                ev = subst(E, e)
                lv = [subst(x, e) for x in L]
                exp.append((("-", mklist_py([x for x in lv if x == ev]), mklist_py([x for x in lv if x != ev])),
                            e["X"], e["Y"]))
        elif k == "memberd_t":
            tv = case.get("t")
            tpre = "" if tv is None else "T = %s, " % tv
            g1 = "%s, %smemberd_t(%s, %s, T), c54_m(X), c54_m(Y)" % (pre, tpre, etxt, ltxt)
            g2 = "%s, %sc54_memberd_t(%s, %s, T), c54_m(X), c54_m(Y)" % (pre, tpre, ltxt, etxt)
            templ = "[T,X,Y]"
            for e in gs:
                ev = subst(E, e)
                v = "true" if ev in [subst(x, e) for x in L] else "false"
                if tv is None or tv == v:
                    exp.append((v, e["X"], e["Y"]))
        elif k == "tmember":
            g1 = "%s, tmember(=(%s), %s), c54_m(X), c54_m(Y)" % (pre, etxt, ltxt)
            g2 = "%s, c54_tmember(%s, %s), c54_m(X), c54_m(Y)" % (pre, etxt, ltxt)
            templ = "[yes,X,Y]"
            for e in gs:
                if subst(E, e) in [subst(x, e) for x in L]:
                    exp.append(("yes", e["X"], e["Y"]))
        else:
            raise ValueError(k)
    # answer-level comparison (no ground completion): branch outcome + is the binding a rational tree
    atempl, asuffix = {
        "if": ("[R,Cy]", "c54_cyc(X-Y,Cy)"),
        "reif": ("[T,Cy]", "c54_cyc(X-Y,Cy)"),
        "tfilter": ("[N,Cy]", "c54_len(O,N), c54_cyc(X-Y,Cy)"),
        "tpartition": ("[N1-N2,Cy]", "c54_len(O1,N1), c54_len(O2,N2), c54_cyc(X-Y,Cy)"),
        "memberd_t": ("[T,Cy]", "c54_cyc(X-Y,Cy)"),
        "tmember": ("[yes,Cy]", "c54_cyc(X-Y,Cy)"),
    }[k]
    assert g1.endswith(COMPLETE) and g2.endswith(COMPLETE)
    a1 = g1[:-len(COMPLETE)] + ", " + asuffix
    a2 = g2[:-len(COMPLETE)] + ", " + asuffix
    goal = ("g((c54_run(%s, (%s), L1), c54_run(%s, (%s), L2), c54_run(%s, (%s), A1), c54_run(%s, (%s), A2)))"
            % (templ, g1, templ, g2, atempl, a1, atempl, a2))
    return goal, sorted(exp, key=repr), nt, g1


def gen(shard, tier):
    kind, idx, n = shard
    pbs = prebinds()
    k = 0
    if kind == "if":
        for c in conds(tier):
            for pb in pbs:
                k += 1
                if k % n == idx:
                    yield {"kind": "if", "cond": jt(c), "pre": jpre(pb)}
        for c in atoms_over(TERMS_FULL):
            for pb in pbs:
                for t in (None, "true", "false"):
                    k += 1
                    if k % n == idx:
                        yield {"kind": "reif", "cond": jt(c), "pre": jpre(pb), "t": t}
    else:
        for L in lists3():
            for pb in pbs:
                for (kd, es, ts) in (("tfilter", ["a", X], [None]), ("tpartition", ["a", X], [None]),
                                     ("memberd_t", ["a", X, Y], [None, "true", "false"]),
                                     ("tmember", ["a", X, Y], [None])):
                    for e in es:
                        for t in ts:
                            k += 1
                            if k % n == idx:
                                d = {"kind": kd, "list": jt(tuple(L)) if L else [], "e": jt(e), "pre": jpre(pb)}
                                if kd == "memberd_t":
                                    d["t"] = t
                                yield d


def jpre(pb):
    return {k: jt(v) if not isinstance(v, bool) else v for k, v in pb.items()}


# ---------------------------------------------------------------------------
# judging

def conv(t):
    """findall result -> sorted list of tuples, or ('exc', sig)"""
    if isinstance(t, tuple) and t[0] == "exc":
        return ("exc", px.formal_sig(t[1]))
    el, tail = unlist(t)
    out = []
    for x in el:
        xs, _ = unlist(x)
        out.append(tuple(xs))
    return sorted(out, key=repr)


def shape(case):
    k = case["kind"]
    if k in ("if", "reif"):
        c = tup(case["cond"])

        def sk(c):
            if c[0] in ("=", "dif"):
                return c[0]
            return "(%s%s%s)" % (sk(c[1]), c[0], sk(c[2]))
        s = sk(c)
        if k == "reif":
            s += "/3 T=%s" % case["t"]
        return s
    return k + ("/T=%s" % case.get("t") if k == "memberd_t" else "")


def cmp_kind(exp, obs, need_exact):
    if isinstance(obs, tuple) and obs and obs[0] == "exc":
        return "exception:" + obs[1]
    es, os_ = set(exp), set(obs)
    if es - os_ and os_ - es:
        return "wrong-answers"
    if es - os_:
        return "missing-answers"
    if os_ - es:
        return "extra-answers"
    if need_exact and len(obs) != len(exp):
        return "duplicate-answers"
    return None


def answers_kind(a1, a2):
    for side, a in (("reif", a1), ("twin", a2)):
        if isinstance(a, tuple) and a and a[0] == "exc":
            return "%s-exception:%s" % (side, a[1])
    if a1 == a2:
        return None
    from collections import Counter
    c1, c2 = Counter(a1), Counter(a2)
    lost, extra = c2 - c1, c1 - c2
    def cls(c):
        return "+".join(sorted({"cyclic" if x[-1] == "cyclic" else "acyclic" for x in c}))
    if lost and not extra:
        return "reif-lacks-%s-answer" % cls(lost)
    if extra and not lost:
        return "reif-has-extra-%s-answer" % cls(extra)
    return "different-branches"


def judge(case, res):
    goal, exp, nt, g1 = build(case)
    viols = []
    if res.abn:
        return "abnormal", [("%s abnormal %s" % (shape(case), res.abn), res.abn)], exp, nt, g1
    if res.status == "exc" or len(res.sols) != 1:
        what = "exception:" + px.formal_sig(res.formal()) if res.status == "exc" else "no-result"
        return "broken", [("%s harness %s" % (shape(case), what), what)], exp, nt, g1
    l1 = conv(res.sols[0]["L1"])
    l2 = conv(res.sols[0]["L2"])
    k1 = cmp_kind(exp, l1, True)
    if k1:
        viols.append(("%s reif-side %s" % (shape(case), k1), show(l1)))
    k2 = cmp_kind(exp, l2, False)
    if k2:
        viols.append(("%s explicit-side %s" % (shape(case), k2), show(l2)))
    # answers of the reif side vs answers of the explicit twin, as multisets of (branch outcome, cyclic?)
    a1 = conv(res.sols[0]["A1"])
    a2 = conv(res.sols[0]["A2"])
    ka = answers_kind(a1, a2)
    if ka:
        viols.append(("%s answers-vs-explicit-twin %s" % (shape(case), ka), "reif=%s twin=%s" % (show(a1), show(a2))))
    vals = [e[0] for e in exp]
    if not exp:
        label = "no-answers"
    elif case["kind"] in ("if", "reif", "memberd_t"):
        ks = sorted(set(str(v) for v in vals))
        label = "%s:%s%s" % (case["kind"], "+".join(ks), "/residual" if nt and len(exp) > 1 else "")
    else:
        label = "%s:%d-groundings" % (case["kind"], len(exp))
    if not isinstance(a2, tuple) and any(x[-1] == "cyclic" for x in a2):
        label += "/rational-tree-answer"
    return label, viols, exp, nt, g1


def show(l):
    if isinstance(l, tuple) and l and l[0] == "exc":
        return "exc:" + l[1]
    return "[" + ",".join("[" + ",".join(px.terms.show(t) for t in e) + "]" for e in l) + "]"


def setup(w, tier):
    w.consult(HELPERS, persist=True)


def run_shard(w, shard, tier):
    acc = px.ShardAcc(max_viol=500)
    for batch in px.chunked(gen(shard, tier), 300):
        rs = px.run_goals(w, [build(c)[0] for c in batch])
        for case, r in zip(batch, rs):
            label, viols, exp, nt, g1 = judge(case, r)
            acc.case(nt, label, sample={"goal": g1, "expected_ground_answers": show(exp)[:400]})
            for vi, (sig, obs) in enumerate(viols):
                c2 = dict(case)
                c2["which"] = vi
                acc.violation(sig, c2, expected=show(exp), observed=obs)
    return acc.result()


def recheck(w, case, tier):
    c = {k: v for k, v in case.items() if k != "which"}
    r = px.run_goals(w, [build(c)[0]])[0]
    label, viols, exp, nt, g1 = judge(c, r)
    if not viols:
        return None
    sig, obs = viols[min(case.get("which", 0), len(viols) - 1)]
    return {"sig": sig, "case": case, "expected": show(exp), "observed": obs}
