"""C50 — in-memory reading and writing match stream reading and writing (DESIGN §6 C50).

Write side: every term of the C15 default-table families x 7 option sets
through write_term_to_chars/3 and through write_term/3 to a file that the
explorer reads back: same text byte for byte (terms with unnamed variables:
equal up to a consistent renaming of the variable tokens; with all variables
named through variable_names/1: byte for byte).
Read side: every soup text of length <= 3 and the quoted text of every C15
term of the small families, read by read_term_from_chars/3, read_from_chars/2
and read_term/2 from a file with the same bytes, under three option lists:
same term and option answers (variant), or the same error class.
"""
import os
import re

from vx.core import px, pool, terms
from vx.model import c15_space as S
from vx.props import C15, C17, C45

ID = "C50"
LEVEL = "exploration"
ENGINE = "PEX"
TECHNIQUE = "differential: charsio predicates vs stream predicates on the same machine, exhaustively over the C15/C17 spaces"
OPT_TEXT = {1: "[]", 2: "[quoted(true)]", 3: "[ignore_ops(true)]", 4: "[quoted(true),max_depth(3)]", 5: "[numbervars(true)]",
            6: "[quoted(true),ignore_ops(true),numbervars(true),double_quotes(true)]", 7: "[max_depth(1)]"}
OPTS = [1, 2, 3, 4, 5, 6, 7]
READ_SPECS = [(), ("n",), ("v", "s")]
RULE = ("write side: every term of the C15 families vocab3/lists/dvar/rat (thorough: their thorough-tier versions) under the default operator table x 7 "
        "option lists ([], [quoted], [ignore_ops], [quoted,max_depth(3)], [numbervars], [quoted,ignore_ops,numbervars,double_quotes], "
        "[max_depth(1)]); terms with variables additionally with variable_names/1 naming every variable. Read side: every soup "
        "string of length <= 3 over the 26-character C17 alphabet (+ ' .') and the quoted text of every term of lists/dvar/rat and "
        "the size<=2 part of vocab3 (thorough: all of the quick-tier vocab3 family) x option lists {[], [variable_names], [variables,singletons]} x entry "
        "points {read_term_from_chars/3, read_from_chars/2, read_term/2 on a file}. Non-trivial: the option list is non-empty, or "
        "the text raises a syntax error.")
LEVEL_TEXT = "bounded exhaustive differential exploration (twin execution on the same machine; files read back by the explorer)"
ASSUMPTIONS = ["driver transport; files are read / written byte-exactly by the explorer process",
               "write_term/3 prints an unnamed variable as _N and write_term_to_chars/3 as a fabricated letter name: texts of terms "
               "with unnamed variables are compared up to a consistent (bijective) renaming of those tokens",
               "errors are compared by class (functor of the formal)"]
MIN_OUTCOMES = 3
BATCH = 200


def wfamilies(tier):
    keep = {"vocab3", "lists", "dvar", "rat"}
    return [(n, t, g) for (n, t, g) in S.families(tier) if t == "default" and n in keep]


def small_terms(tier):
    for (n, t, g) in S.families("quick"):
        if t != "default":
            continue
        if n in ("lists", "dvar", "rat"):
            for d in g():
                yield d
        elif n == "vocab3":
            # quick: the size <= 2 part; thorough: all of the quick-tier vocab3 family
            for d in g():
                if tier == "thorough" or size(d) <= 2:
                    yield d


def size(d):
    k = d[0]
    if k == "c":
        return 1 + sum(size(x) for x in d[2])
    if k == "k":
        return size(d[1])
    if k in ("l", "s"):
        return 3
    return 1


def bound_text(tier):
    nw = sum(sum(1 for _ in g()) for (_, _, g) in wfamilies(tier))
    nt = sum(1 for _ in small_terms(tier))
    ns = sum(1 for _ in C17.soups("quick") if len(_) <= 3)
    return "write: %d terms x 7 option lists (x2 when the term has variables); read: %d soup texts + %d term texts x 3 option lists x 3 entry points" % (nw, ns, nt)


NW = {"quick": 24, "thorough": 64}
NR = {"quick": 12, "thorough": 24}


def shards(tier):
    return [("write", k, NW[tier]) for k in range(NW[tier])] + [("read", k, NR[tier]) for k in range(NR[tier])]


def setup(w, tier):
    w.consult(S.helper_text(), persist=True)
    w.consult(C45.helper_text(), persist=True)
    with open(os.path.join(pool.ROOT, "vx", "prolog", "c50_helper.pl")) as f:
        w.consult(f.read(), persist=True)


def path(i):
    d = os.path.join(pool.WORK, "agentC")
    os.makedirs(d, exist_ok=True)
    return os.path.join(d, "c50_%d_%d.txt" % (os.getpid(), i))


# --------------------------------------------------------------------------
# write side
VTOK_STREAM = re.compile(r"_[0-9]+")
VTOK_MEM = re.compile(r"_?[A-Z][0-9]*")


def aligned_equal(stream_text, mem_text):
    """equal up to a bijective renaming of variable tokens (_N in the stream text)"""
    i = j = 0
    m1, m2 = {}, {}
    while i < len(stream_text):
        m = VTOK_STREAM.match(stream_text, i)
        if m and (i == 0 or not (stream_text[i - 1].isalnum() or stream_text[i - 1] == "_")):
            n = VTOK_MEM.match(mem_text, j)
            if not n:
                return False
            a, b = m.group(0), n.group(0)
            if m1.setdefault(a, b) != b or m2.setdefault(b, a) != a:
                return False
            i, j = m.end(), n.end()
            continue
        if j >= len(mem_text) or stream_text[i] != mem_text[j]:
            return False
        i += 1
        j += 1
    return j == len(mem_text)


def run_write(w, items):
    """items: [(desc, named)] -> list of (mem results, stream results) or abn string"""
    goals = []
    for i, (d, named) in enumerate(items):
        goals.append("g(c50_write(%s,'%s',[%s],%s,R))" % (S.fmt_desc(d), path(i), ",".join(map(str, OPTS)), "true" if named else "false"))
    out = []
    for i, r in enumerate(px.run_goals(w, goals)):
        if r.abn or r.status != "done" or len(r.sols) != 1:
            out.append(r.abn or ("driver: " + (terms.show(r.exc) if r.status == "exc" else str(r.status))))
            continue
        mem = []
        for x in terms.unlist(r.sols[0]["R"])[0]:
            s = terms.list_to_str(x)
            mem.append(s if s is not None else ("\x03" + x[1] if isinstance(x, tuple) and x[0] == "err" else "\x04"))
        try:
            with open(path(i), "rb") as f:
                data = f.read().decode("utf-8", "replace")
        except OSError as e:
            out.append("file: %s" % e)
            continue
        parts = data.split("\x02")
        out.append((mem, parts[:-1] if parts and parts[-1] == "" else parts))
    return out


def judge_write(d, named, mem, stream):
    """-> list of (opt index, label, violation kind or None, expected, observed)"""
    res = []
    if len(stream) != len(OPTS) or len(mem) != len(OPTS):
        return [(0, "shape", "output_shape_mismatch", "%d texts" % len(OPTS), "mem=%d stream=%d" % (len(mem), len(stream)))]
    ground = not S.has_var(d)
    for o, m, s in zip(OPTS, mem, stream):
        if m.startswith("\x03") or s.startswith("\x03") or m == "\x04" or s == "\x04":
            if m == s:
                res.append((o, "same_error:" + m[1:], None, s, m))
            else:
                res.append((o, "error_differs", "error_differs mem=%s stream=%s" % (m[1:] if m[0] == "\x03" else "text", s[1:] if s[0] == "\x03" else "text"), s, m))
            continue
        if m == s:
            res.append((o, "identical", None, s, m))
        elif not ground and not named and aligned_equal(s, m):
            res.append((o, "identical_up_to_variable_names", None, s, m))
        else:
            res.append((o, "text_differs", "text_differs", s, m))
    return res


def term_class(d):
    r = C15.routes_of(d)
    return ("vars" if S.has_var(d) else "ground") + ("" if r == "-" else "+" + r)


def write_shard(w, k, n, tier, acc):
    def gen():
        i = 0
        for (_, _, g) in wfamilies(tier):
            for d in g():
                if i % n == k:
                    yield (d, False)
                    if S.has_var(d):
                        yield (d, True)
                i += 1
    for batch in px.chunked(gen(), BATCH):
        for (d, named), r in zip(batch, run_write(w, batch)):
            case = {"side": "write", "desc": d, "named": named}
            if isinstance(r, str):
                acc.case(True, "abnormal")
                acc.violation("write abn:%s %s" % (r, term_class(d)), case, expected="texts", observed=r)
                continue
            for (o, label, vk, exp, obs) in judge_write(d, named, r[0], r[1]):
                acc.case(o != 1 or named, "write:" + label,
                         sample=None if len(acc.samples) >= 3 else {"term": S.show(d), "options": OPT_TEXT.get(o), "stream": exp, "chars": obs})
                if vk:
                    acc.violation("write opts=%s%s %s %s" % (o, "+names" if named else "", vk, term_class(d)), dict(case, opt=o),
                                  expected="write_term/3 text: %r" % exp, observed="write_term_to_chars/3 text: %r" % obs)


# --------------------------------------------------------------------------
# read side
def read_texts(tier):
    for s in C17.soups("quick"):
        if len(s) <= 3:
            yield ("soup", s + " .")


def err_class(o):
    if isinstance(o, tuple) and o and o[0] == "err":
        f = o[1]
        return "err:" + (f[0] if isinstance(f, tuple) else str(f))
    if isinstance(o, tuple) and o and o[0] in ("abn", "driver", "ball", "loop", "missing"):
        return "%s:%s" % (o[0], o[1] if len(o) > 1 else "")
    if o == "failed":
        return "failed"
    return None


def compare_reads(a, b):
    """two observation records (renumbered) -> None if equivalent else a kind"""
    ea, eb = err_class(a), err_class(b)
    if ea or eb:
        if ea == eb:
            return None
        return "outcome_differs %s vs %s" % (ea or "term", eb or "term")
    return None if a == b else "answers_differ"


def run_reads(w, texts):
    """-> per text: dict (entry, spec) -> observation"""
    out = [dict() for _ in texts]
    for i, t in enumerate(texts):
        with open(path(i), "wb") as f:
            f.write(t.encode("utf-8"))
    goals = []
    keys = []
    for i, t in enumerate(texts):
        codes = ",".join(str(ord(c)) for c in t)
        for spec in READ_SPECS:
            goals.append("g(c45_read_chars([%s],%s,R))" % (codes, C45.spec_text(spec)))
            keys.append((i, "chars", spec))
            goals.append("g(c45_read_file('%s',%s,1,R))" % (path(i), C45.spec_text(spec)))
            keys.append((i, "file", spec))
        goals.append("g(c45_read_from_chars([%s],R))" % codes)
        keys.append((i, "from_chars", ()))
    for (i, e, spec), r in zip(keys, px.run_goals(w, goals)):
        o = C45.obs_of(r)
        if e == "file" and isinstance(o, tuple) and o and o[0] == ".":
            el = terms.unlist(o)[0]
            o = C45.renumber(el[0]) if el else ("missing",)
        out[i][(e, spec)] = o
    return out


def text_class(t):
    f = C17.flags(t)
    return "+".join(f) if f else "plain"


def judge_reads(text, obs):
    res = []
    for spec in READ_SPECS:
        a, b = obs[("chars", spec)], obs[("file", spec)]
        k = compare_reads(a, b)
        lab = "read:" + (err_class(a) or "term") if not k else "read:differs"
        res.append((spec, "file", lab, k, b, a))
    a, c = obs[("chars", ())], obs[("from_chars", ())]
    k = compare_reads(a, c)
    res.append(((), "from_chars", "read_from_chars:" + (err_class(c) or "term") if not k else "read:differs", k, a, c))
    return res


def read_shard(w, k, n, tier, acc):
    def gen():
        i = 0
        for (kind, t) in read_texts(tier):
            if i % n == k:
                yield (kind, t, None)
            i += 1
    items = list(gen())
    # quoted texts of the small C15 terms: obtained from the stream writer
    descs = [d for i, d in enumerate(small_terms(tier)) if i % n == k]
    for batch in px.chunked(descs, 300):
        rs = px.run_goals(w, ["g(c15a(%s,[tq]))" % S.fmt_desc(d) for d in batch])
        for d, r in zip(batch, rs):
            if r.abn or r.status != "done":
                continue
            ts = C15.split_texts(r, 1)
            if ts[0][0] is not None:
                items.append(("term", ts[0][0] + " .", d))
    for batch in px.chunked(items, BATCH):
        obs = run_reads(w, [t for (_, t, _) in batch])
        for (kind, t, d), o in zip(batch, obs):
            for (spec, other, label, vk, exp, got) in judge_reads(t, o):
                acc.case(bool(spec) or "err" in label, label,
                         sample=None if len(acc.samples) >= 3 else {"text": t, "options": list(spec), "other_entry": other,
                                                                    "observed": terms.show(got)})
                if vk:
                    acc.violation("read %s opts=%s %s %s" % (other, "".join(spec) or "-", vk, kind + ":" + text_class(t)),
                                  {"side": "read", "text": t, "spec": list(spec), "other": other, "tkind": kind},
                                  expected=terms.show(exp), observed=terms.show(got))


def run_shard(w, shard, tier):
    acc = px.ShardAcc()
    if shard[0] == "write":
        write_shard(w, shard[1], shard[2], tier, acc)
    else:
        read_shard(w, shard[1], shard[2], tier, acc)
    return acc.result()


def recheck(w, case, tier):
    if case["side"] == "write":
        d, named = case["desc"], case["named"]
        r = run_write(w, [(d, named)])[0]
        if isinstance(r, str):
            return {"sig": "write abn:%s %s" % (r, term_class(d)), "case": case, "expected": "texts", "observed": r}
        for (o, label, vk, exp, obs) in judge_write(d, named, r[0], r[1]):
            if vk and o == case.get("opt", o):
                return {"sig": "write opts=%s%s %s %s" % (o, "+names" if named else "", vk, term_class(d)), "case": case,
                        "expected": "write_term/3 text: %r" % exp, "observed": "write_term_to_chars/3 text: %r" % obs}
        return None
    t = case["text"]
    o = run_reads(w, [t])[0]
    kind = "soup" if not case.get("term") else "term"
    for (spec, other, label, vk, exp, got) in judge_reads(t, o):
        if vk and list(spec) == case["spec"] and other == case["other"]:
            return {"sig": "read %s opts=%s %s %s" % (other, "".join(spec) or "-", vk, case.get("tkind", "soup") + ":" + text_class(t)),
                    "case": case, "expected": terms.show(exp), "observed": terms.show(got)}
    return None
