"""C04 — arithmetic comparison is exact and self-consistent (DESIGN §6 C04).

Space: all unordered pairs {a, b} (both orders executed, a = b included) over
INT (literal, plus the small values again held in a bignum cell), RAT, FLT and a
near-tie set; the six predicates < =< > >= =:= =\\= in four contexts: as the last
goal of a compiled clause with the operands in variables, as a non-last goal,
meta-called, and with both operands written literally in a consulted clause body.
Oracle: exact Fraction comparison between exact numbers; when one side is a float
the other side is converted to double (RNE) first.  The order axioms are checked
on the observations independently of the oracle.
"""
import os
from fractions import Fraction

from vx.core import px, terms
from vx.model import numbers as N
from vx.model import numbers2 as M

ID = "C04"
LEVEL = "exploration"
ENGINE = "PEX"
TECHNIQUE = "bounded exhaustive input-space exploration against exact rational / IEEE double comparison"
LEVEL_TEXT = ("every pair of the boundary-value number alphabet is compared by all six predicates in four "
              "evaluation contexts on the real machine; each result is checked against an exact reference and the "
              "trichotomy / duality / antisymmetry axioms are checked on the observations themselves")
RULE = ("all unordered pairs (both orders run) over INT(43) + small INT values held as bignums + RAT(10) + FLT + "
        "near-tie values (2^53..2^53+2, 1r3 and its float neighbours, +-2^1024; thorough adds 2^k+-1, the float "
        "neighbours of 2^k and (2^(k+1)+1)/2 for k in 53,55,63,64,100); 6 predicates x 4 contexts. "
        "Non-trivial: the two operands have different representations (fixnum / bignum / bignum-held small / "
        "rational / float).")
ASSUMPTIONS = [
    "Python Fraction comparison is exact; float(int) and float(Fraction) are correctly rounded",
    "an integer or rational with no finite double, compared with a float, may either raise "
    "evaluation_error(float_overflow) or compare as +-infinity",
    "driver transport and catch/3, call/1",
]
MIN_OUTCOMES = 3

PREDS = ["<", "=<", ">", ">=", "=:=", "=\\="]
CTXS = ["exec", "call", "meta", "literal"]

NEAR = [("i", 2 ** 53), ("i", 2 ** 53 + 1), ("i", 2 ** 53 + 2), ("i", -(2 ** 53) - 1),
        ("r", Fraction(1, 3)), ("f", 0.3333333333333333), ("f", 0.33333333333333337), ("f", 0.3333333333333332),
        ("i", M.HUGE), ("i", -M.HUGE), ("r", Fraction(2 ** 53 + 1, 1 << 53)), ("r", Fraction(3 * 2 ** 1023, 2)),
        ("r", Fraction(10 ** 400, 3)), ("i", 2 ** 63 + 1), ("i", 10 ** 22), ("i", 10 ** 23)]


def _alphabet():
    al = [("i", v) for v in N.INT] + [("a", v) for v in N.INT if N.is_fix(v)] + [("r", r) for r in N.RAT]
    seen = set()
    for f in M.FLT:
        if f == 0.0 and M.bits(f) < 0:
            continue   # -0.0 cannot be held in a variable on this tree (see F-C03-1) and compares equal to 0.0 anyway
        al.append(("f", f))
    al += NEAR
    out = []
    for o in al:
        k = enc(o)
        if k not in seen:
            seen.add(k)
            out.append(o)
    return out


def enc(o):
    k, v = o
    if k == "f":
        return "f:" + v.hex()
    if k == "r":
        return "r:%d/%d" % (v.numerator, v.denominator)
    return "%s:%d" % (k, v)


def dec(s):
    k, v = s.split(":", 1)
    if k == "f":
        return float.fromhex(v)
    if k == "r":
        a, b = v.split("/")
        return Fraction(int(a), int(b))
    if k == "a":
        return M.A(int(v))
    return int(v)


def _extra():
    """thorough: integers / floats / rationals that differ only beyond double precision"""
    import math
    ex = []
    for k in (53, 55, 63, 64, 100):
        p = 2 ** k
        ex += [("i", p - 1), ("i", p + 1), ("i", -p + 1), ("f", math.nextafter(float(p), 0.0)),
               ("f", math.nextafter(float(p), math.inf)), ("r", Fraction(2 * p + 1, 2)), ("r", Fraction(-2 * p - 1, 2))]
    ex += [("i", 10 ** 22 + 1), ("i", 10 ** 23 - 1), ("f", 1e23), ("f", 9.999999999999999e22),
           ("r", Fraction(1, 10)), ("f", 0.1), ("f", 0.30000000000000004), ("r", Fraction(3, 10))]
    return ex


ALPHA = _alphabet()
ALPHA_T = list(ALPHA)
for _o in _extra():
    if enc(_o) not in {enc(x) for x in ALPHA_T}:
        ALPHA_T.append(_o)
NSH = 32


def alpha(tier):
    return ALPHA_T if tier == "thorough" else ALPHA


def bound_text(tier):
    n = len(alpha(tier))
    return "all %d unordered pairs (both orders) over %d numbers x 6 predicates x 4 contexts" % (n * (n + 1) // 2, n)


def shards(tier):
    return [("pairs", g) for g in range(NSH)]


def gen(shard, tier):
    g = shard[1]
    ALPHA = alpha(tier)
    n = len(ALPHA)
    k = 0
    for i in range(n):
        for j in range(i, n):
            if k % NSH == g:
                yield [enc(ALPHA[i]), enc(ALPHA[j])]
            k += 1


def rep(s):
    """representation class of an operand"""
    k = s[0]
    v = dec(s)
    if k == "f":
        return "float"
    if k == "r":
        return "rational"
    if k == "a":
        return "small_in_bignum"
    return "fixnum" if N.is_fix(v) else "bignum"


# ---- oracle ---------------------------------------------------------------------------

def compare(a, b):
    """-> list of acceptable orderings: -1/0/1, or 'ovf'"""
    if M.is_exact(a) and M.is_exact(b):
        fa, fb = Fraction(a), Fraction(b)
        return [(fa > fb) - (fa < fb)]
    out = []
    vals = []
    for x in (a, b):
        try:
            vals.append(M.to_float(x))
        except M.Ovf:
            out.append("ovf")
            vals.append(float("inf") if x > 0 else float("-inf"))
    fa, fb = vals
    out.append((fa > fb) - (fa < fb))
    return out


TRUTH = {"<": (-1,), "=<": (-1, 0), ">": (1,), ">=": (0, 1), "=:=": (0,), "=\\=": (-1, 1)}


def accept(pred, orderings):
    acc = set()
    for o in orderings:
        if o == "ovf":
            acc.add("e:float_overflow")
        else:
            acc.add("t" if o in TRUTH[pred] else "f")
    return acc


def obs_label(r):
    if r in ("t", "f"):
        return r
    if isinstance(r, tuple) and r[0] == "e":
        f = r[1]
        if f == ("evaluation_error", "float_overflow"):
            return "e:float_overflow"
        return "e:" + px.formal_sig(f)
    return "?" + terms.show(r)[:40]


# ---- execution --------------------------------------------------------------------------

_counter = [0]


def setup(w, tier):
    with open(os.path.join(os.path.dirname(os.path.dirname(os.path.abspath(__file__))), "prolog", "C04_helpers.pl")) as f:
        w.consult(f.read(), persist=True)
    w.setup_cases.append("g(X = 0.0) .")
    px.run_goals(w, ["g(X = 0.0)"])


def text_of(s):
    return M.num_text(dec(s))


def lit_clause(k, ta, tb):
    conds = []
    rs = []
    n = 0
    for x, y in ((ta, tb), (tb, ta)):
        for p in PREDS:
            n += 1
            conds.append("( %s %s %s -> R%d = t ; R%d = f )" % (x, p, y, n, n))
            rs.append("R%d" % n)
    return "c04l_%d([%s]) :- %s.\n" % (k, ",".join(rs), ", ".join(conds))


def run_pairs(w, pairs):
    """-> list of (pair, observation dict | abnormal str)"""
    prog = []
    goals = []
    for a, b in pairs:
        _counter[0] += 1
        k = _counter[0]
        ta, tb = text_of(a), text_of(b)
        prog.append(lit_clause(k, ta, tb))
        goals.append("g((A is %s, B is %s, c04_pair(A, B, RAB, RBA), c04_lit(c04l_%d(L), L, RL)))" % (ta, tb, k))
    r = w.consult("".join(prog))
    if r.get("out", "").strip() or r.get("panic"):
        raise px.pool.MachineryError("C04 consult failed: %r" % (r,))
    out = []
    for (a, b), r in zip(pairs, px.run_goals(w, goals)):
        if r.abn:
            out.append(([a, b], "abnormal:" + r.abn))
            continue
        if r.status == "exc":
            out.append(([a, b], "driver_exc:" + px.formal_sig(r.formal())))
            continue
        if len(r.sols) != 1:
            out.append(([a, b], "driver_sols:%d" % len(r.sols)))
            continue
        s = r.sols[0]
        rab, t1 = terms.unlist(s.get("RAB"))
        rba, t2 = terms.unlist(s.get("RBA"))
        rl = s.get("RL")
        if len(rab) != 18 or len(rba) != 18:
            out.append(([a, b], "driver_badlist"))
            continue
        obs = {}   # (order, ctx, pred) -> label
        for order, lst in (("ab", rab), ("ba", rba)):
            for ci, ctx in enumerate(CTXS[:3]):
                for pi, p in enumerate(PREDS):
                    obs[(order, ctx, p)] = obs_label(lst[ci * 6 + pi])
        ll, t3 = terms.unlist(rl)
        if t3 == terms.NIL and len(ll) == 12:
            for oi, order in enumerate(("ab", "ba")):
                for pi, p in enumerate(PREDS):
                    obs[(order, "literal", p)] = obs_label(ll[oi * 6 + pi])
        else:
            lab = obs_label(rl)
            for order in ("ab", "ba"):
                for p in PREDS:
                    obs[(order, "literal", p)] = lab
        out.append(([a, b], obs))
    return out


def judge(pair, obs):
    """-> list of (sig, expected, observed) violations; label"""
    a, b = pair
    va, vb = dec(a), dec(b)
    ca, cb = M.nclass(va) + "/" + rep(a), M.nclass(vb) + "/" + rep(b)
    if isinstance(obs, str):
        return "abnormal", [("pair a=%s b=%s %s" % (ca, cb, obs), "36+12 comparison outcomes", obs)]
    viols = []
    want = {"ab": compare(va, vb), "ba": compare(vb, va)}
    for (order, ctx, p), got in sorted(obs.items()):
        acc = accept(p, want[order])
        if got not in acc:
            x, y = (ca, cb) if order == "ab" else (cb, ca)
            viols.append(("cmp %s ctx=%s a=%s b=%s want=%s got=%s" % (p, ctx, x, y, "|".join(sorted(acc)), got),
                          "%s %s %s : %s" % (text_of(a if order == "ab" else b), p, text_of(b if order == "ab" else a), "|".join(sorted(acc))),
                          got))
    # axioms on the observations themselves
    for ctx in CTXS:
        for order in ("ab", "ba"):
            o = {p: obs[(order, ctx, p)] for p in PREDS}
            if any(v.startswith("e:") for v in o.values()):
                if not all(v == o["<"] for v in o.values()):
                    viols.append(("axiom error_consistency ctx=%s a=%s b=%s" % (ctx, ca, cb), "all six raise alike", str(o)))
                continue
            if sum(1 for p in ("<", "=:=", ">") if o[p] == "t") != 1:
                viols.append(("axiom trichotomy ctx=%s a=%s b=%s" % (ctx, ca, cb), "exactly one of < =:= >", str(o)))
            if (o["=<"] == "t") == (o[">"] == "t"):
                viols.append(("axiom =<_iff_not_> ctx=%s a=%s b=%s" % (ctx, ca, cb), "=< iff not >", str(o)))
            if (o[">="] == "t") == (o["<"] == "t"):
                viols.append(("axiom >=_iff_not_< ctx=%s a=%s b=%s" % (ctx, ca, cb), ">= iff not <", str(o)))
            if (o["=\\="] == "t") == (o["=:="] == "t"):
                viols.append(("axiom =\\=_iff_not_=:= ctx=%s a=%s b=%s" % (ctx, ca, cb), "=\\= iff not =:=", str(o)))
        ab, ba = obs[("ab", ctx, "<")], obs[("ba", ctx, ">")]
        if ab != ba:
            viols.append(("axiom antisymmetry ctx=%s a=%s b=%s" % (ctx, ca, cb), "a < b iff b > a", "a<b:%s b>a:%s" % (ab, ba)))
        if obs[("ab", ctx, "=:=")] != obs[("ba", ctx, "=:=")]:
            viols.append(("axiom symmetry_=:= ctx=%s a=%s b=%s" % (ctx, ca, cb), "a =:= b iff b =:= a", ""))
    o = obs[("ab", "exec", "<")], obs[("ab", "exec", "=:=")]
    label = "lt" if o[0] == "t" else "eq" if o[1] == "t" else "err" if o[0].startswith("e:") else "gt"
    return label, viols


def run_shard(w, shard, tier):
    acc = px.ShardAcc()
    for batch in px.chunked(gen(shard, tier), 100):
        for pair, obs in run_pairs(w, batch):
            label, viols = judge(pair, obs)
            nt = rep(pair[0]) != rep(pair[1])
            acc.case(nt, label + ":" + rep(pair[0]) + "~" + rep(pair[1]),
                     sample={"a": text_of(pair[0]), "b": text_of(pair[1]), "outcome": label})
            acc.extra["comparisons_checked"] += 48
            for sig, exp, got in viols[:4]:
                acc.violation(sig, {"pair": pair, "a": text_of(pair[0]), "b": text_of(pair[1]), "focus": sig},
                              expected=exp, observed=got)
    return acc.result()


def recheck(w, case, tier):
    (pair, obs), = run_pairs(w, [case["pair"]])
    label, viols = judge(pair, obs)
    if viols:
        sig, exp, got = viols[0]
        for v in viols:   # a pair can violate several clauses; report the one this replay is about
            if v[0] == case.get("focus"):
                sig, exp, got = v
        return {"sig": sig, "case": case, "expected": exp, "observed": got}
    return None
