"""C22 — atom and character builtins agree with their string semantics (DESIGN §6 C22).

atom_length/2, atom_chars/2, atom_codes/2, char_code/2, atom_concat/3,
sub_atom/5 and the case/classification queries of char_type/2 over a small
atom alphabet (ASCII and non-ASCII) with every parameter drawn from correct
values, unbound, and ill-typed values.  Oracle: Python str on code points;
enumeration order = ISO order (B ascending, then L ascending), each solution
exactly once; errors = the ISO error table (a *set* where several conditions
hold at once).
"""
import itertools
from fractions import Fraction

from vx.core import px
from vx.core.terms import V, NIL, mklist, unlist
from vx.model import termspace as T
from vx.model import unify as U

ID = "C22"
LEVEL = "exploration"
ENGINE = "PEX"
TECHNIQUE = "bounded exhaustive enumeration of argument modes and values against a Python string model and the ISO error table"
LEVEL_TEXT = ("input-space exploration: each builtin is a relation over a few arguments; all atoms of a small alphabet x "
              "all instantiation patterns x ill-typed values are executed and the full solution sequences compared")
RULE = ("atoms {'',a,ab,abc,e-acute,a+e-acute,'a b','A','1',[]} + 13 atoms containing NUL (start/middle/end, 1..7 bytes, next to a multi-byte char); every parameter from correct values + {unbound, 1, 1.5, "
        "f(x), [a|_], \"ab\", -1, 2^70}; atom_length (all pairs), atom_chars/atom_codes (both directions, partial and "
        "ill-formed lists), char_code (both), atom_concat (11x11x16 patterns), sub_atom (every solution x 16 bound/unbound "
        "patterns + wrong and ill-typed values), char_type classification/case over 10 chars. Non-trivial: the atom is "
        "non-ASCII or contains NUL, or the mode enumerates.")
ASSUMPTIONS = ["Python str semantics on code points; str.upper/lower/isalpha follow the same Unicode tables as Rust's char methods "
               "for the 10 characters used",
               "where ISO lists several applicable error conditions any of them is accepted",
               "when the first argument is a valid atom/char and the second is ill-formed, failure is accepted besides the ISO error "
               "(implementations legitimately unify first)"]
MIN_OUTCOMES = 4

BIG = 2 ** 70
# NUL is an ordinary character of an atom: 2..7 bytes, NUL at the start / middle / end, next to a multi-byte
# character, and one text of 7 bytes (beyond the 6-byte inline limit)
NUL_ATOMS = ["\x00", "\x00a", "a\x00", "a\x00b", "ab\x00", "\x00ab", "a\x00bcd", "abcd\x00", "a\x00bcdef", "\u00e9\x00a", "a\x00\u00e9",
             "\x00\x00", "a\x00\x00b"]
ATOMS = ["", "a", "ab", "abc", "é", "aé", "a b", "A", "1", "[]"] + NUL_ATOMS


def bound_text(tier):
    return ("27 atoms (13 with NUL; sub_atom up to length 7);" if tier == "thorough" else "23 atoms (13 with NUL);") + " all listed argument patterns for 7 builtins (%d calls)" % sum(len(list(gen(s))) for s in shards(tier))


# ---------------------------------------------------------------------------
# expectation objects

class Exp:
    def __init__(self, sols=None, errors=None, may_fail=False, impl=False):
        self.sols = sols          # list of tuples (values of the observed variables), in order
        self.errors = errors      # set of acceptable formals (tuples/atoms)
        self.may_fail = may_fail  # with errors: plain failure is accepted too
        self.impl = impl          # implementation defined: only "no crash" is required

    def text(self):
        if self.impl:
            return "implementation defined"
        if self.errors:
            return "error in {%s}%s" % ("; ".join(sorted(T_show(e) for e in self.errors)), " or failure" if self.may_fail else "")
        return "solutions %s" % ([tuple(T_show(x) for x in s) for s in self.sols],)


def T_show(t):
    from vx.core.terms import show
    return show(t)


def is_atom(t):
    return isinstance(t, str)


def is_var(t):
    return isinstance(t, V)


def is_int(t):
    return isinstance(t, int) and not isinstance(t, bool)


def inst():
    return "instantiation_error"


def te(kind, culprit):
    return ("type_error", kind, culprit)


def de(kind, culprit):
    return ("domain_error", kind, culprit)


REP = ("representation_error", "character_code")


def list_class(t):
    """('list'|'partial'|'neither', elements)"""
    el, tail = unlist(t)
    if tail == NIL:
        return "list", el
    if is_var(tail):
        return "partial", el
    return "neither", el


# ---------------------------------------------------------------------------
# models.  Each returns Exp; `obs` = the unbound *named* arguments in order.

def m_atom_length(A, L):
    errs = set()
    if is_var(A):
        errs.add(inst())
    elif not is_atom(A):
        errs.add(te("atom", A))
    if not is_var(L):
        if not is_int(L):
            errs.add(te("integer", L))
        elif L < 0:
            errs.add(de("not_less_than_zero", L))
    if errs:
        return Exp(errors=errs)
    n = len(A)
    if is_var(L):
        return Exp(sols=[(n,)])
    return Exp(sols=[()] if L == n else [])


def _text_list_model(A, L, kind):
    """atom_chars (kind='chars') / atom_codes (kind='codes')"""
    cls, el = list_class(L)

    def good(e):
        if kind == "chars":
            return is_atom(e) and len(e) == 1
        return is_int(e) and 0 <= e <= 0x10FFFF and not (0xD800 <= e <= 0xDFFF)

    def elem_errs(e):
        if kind == "chars":
            return {te("character", e)}
        if is_int(e):
            return {REP}
        return {te("integer", e), REP}
    errs = set()
    bad = [e for e in el if not is_var(e) and not good(e)]
    if is_var(A):
        if cls == "partial" or is_var(L) or (cls == "list" and any(is_var(e) for e in el)):
            errs.add(inst())
        if cls == "neither":
            errs.add(te("list", L))
        for e in bad:
            errs |= elem_errs(e)
        if errs:
            return Exp(errors=errs)
        s = "".join(el) if kind == "chars" else "".join(chr(c) for c in el)
        return Exp(sols=[(s,)])
    if not is_atom(A):
        errs.add(te("atom", A))
        # other conditions may be reported instead
        if cls == "neither":
            errs.add(te("list", L))
        for e in bad:
            errs |= elem_errs(e)
        return Exp(errors=errs)
    # A is an atom
    if cls == "neither" and not is_var(L):
        return Exp(errors={te("list", L)}, may_fail=True)
    if bad:
        e2 = set()
        for e in bad:
            e2 |= elem_errs(e)
        return Exp(errors=e2, may_fail=True)
    want = list(A) if kind == "chars" else [ord(c) for c in A]
    if is_var(L):
        return Exp(sols=[(mklist(want),)])
    # unify L with the list
    ok = U.unify_oc(L, mklist(want)) is not None
    return Exp(sols=[()] if ok else [])


def m_atom_chars(A, L):
    return _text_list_model(A, L, "chars")


def m_atom_codes(A, L):
    return _text_list_model(A, L, "codes")


def valid_code(c):
    return is_int(c) and 0 <= c <= 0x10FFFF and not (0xD800 <= c <= 0xDFFF)


def m_char_code(Ch, Co):
    errs = set()
    if is_var(Ch) and is_var(Co):
        return Exp(errors={inst()})
    if not is_var(Ch) and not (is_atom(Ch) and len(Ch) == 1):
        errs.add(te("character", Ch))
    if not is_var(Co):
        if not is_int(Co):
            errs.add(te("integer", Co))
        elif not valid_code(Co):
            errs.add(REP)
    if errs:
        # with a valid character and an integer that is no character code, failing is also accepted
        soft = (not is_var(Ch)) and errs == {REP}
        return Exp(errors=errs, may_fail=soft)
    if is_var(Ch):
        return Exp(sols=[(chr(Co),)])
    if is_var(Co):
        return Exp(sols=[(ord(Ch),)])
    return Exp(sols=[()] if ord(Ch) == Co else [])


def m_atom_concat(A1, A2, A12):
    errs = set()
    for a in (A1, A2, A12):
        if not is_var(a) and not is_atom(a):
            errs.add(te("atom", a))
    if is_var(A12) and (is_var(A1) or is_var(A2)):
        errs.add(inst())
    if errs:
        return Exp(errors=errs)
    if is_var(A12):
        return Exp(sols=[(A1 + A2,)])
    sols = []
    for k in range(len(A12) + 1):
        p, s = A12[:k], A12[k:]
        if not is_var(A1) and A1 != p:
            continue
        if not is_var(A2) and A2 != s:
            continue
        row = []
        if is_var(A1):
            row.append(p)
        if is_var(A2):
            row.append(s)
        sols.append(tuple(row))
    return Exp(sols=sols)


def m_sub_atom(At, B, L, A, S):
    errs = set()
    if is_var(At):
        errs.add(inst())
    elif not is_atom(At):
        errs.add(te("atom", At))
    if not is_var(S) and not is_atom(S):
        errs.add(te("atom", S))
    for x in (B, L, A):
        if not is_var(x):
            if not is_int(x):
                errs.add(te("integer", x))
            elif x < 0:
                errs.add(de("not_less_than_zero", x))
    if errs:
        return Exp(errors=errs)
    n = len(At)
    sols = []
    for b in range(n + 1):
        for l in range(n - b + 1):
            a = n - b - l
            s = At[b:b + l]
            if (not is_var(B) and B != b) or (not is_var(L) and L != l) or (not is_var(A) and A != a) or (not is_var(S) and S != s):
                continue
            row = []
            for x, v in ((B, b), (L, l), (A, a), (S, s)):
                if is_var(x):
                    row.append(v)
            sols.append(tuple(row))
    return Exp(sols=sols)


CTYPES = ["alphabetic", "alphanumeric", "numeric", "lower", "upper", "whitespace", "ascii", "decimal_digit", "control"]


def ctype_holds(c, t):
    if t == "alphabetic":
        return c.isalpha()
    if t == "alphanumeric":
        return c.isalpha() or c.isnumeric()
    if t == "numeric":
        return c.isnumeric()
    if t == "lower":
        return c.islower()
    if t == "upper":
        return c.isupper()
    if t == "whitespace":
        return c.isspace()
    if t == "ascii":
        return ord(c) < 128
    if t == "decimal_digit":
        return c in "0123456789"
    if t == "control":
        import unicodedata
        return unicodedata.category(c) == "Cc"
    raise KeyError(t)


def m_char_type(C, Ty):
    """Ty: atom type, ('upper', X) or ('lower', X)"""
    if is_var(C):
        return Exp(impl=True)
    if not (is_atom(C) and len(C) == 1):
        return Exp(errors={te("character", C)})
    if isinstance(Ty, tuple):
        want = C.upper() if Ty[0] == "upper" else C.lower()
        x = Ty[1]
        if is_var(x):
            return Exp(sols=[(mklist(list(want)),)])
        return Exp(sols=[()] if U.tkey(x) == U.tkey(mklist(list(want))) else [])
    if Ty not in CTYPES:
        return Exp(errors={de("char_type", Ty)})
    return Exp(sols=[()] if ctype_holds(C, Ty) else [])


MODELS = {"atom_length": m_atom_length, "atom_chars": m_atom_chars, "atom_codes": m_atom_codes, "char_code": m_char_code,
          "atom_concat": m_atom_concat, "sub_atom": m_sub_atom, "char_type": m_char_type}


# ---------------------------------------------------------------------------
# the space

BAD = [1, 1.5, ("f", "x"), mklist(["a"], V("_")), T.str_term("ab"), -1, BIG]
CHARS10 = ["a", "A", "1", " ", "é", "É", "ß", "€", "İ", "\n"]


def uniq(xs):
    out = []
    seen = set()
    for x in xs:
        k = U.tkey(x)
        if k not in seen:
            seen.add(k)
            out.append(x)
    return out


CONCAT_A1 = [V("X1"), "", "a", "ab", "é", 1, ("f", "x"), "\x00", "a\x00", "\x00a", "a\x00b"]


def shards(tier):
    sh = [("atom_length",), ("atom_chars", 0), ("atom_chars", 1), ("atom_codes", 0), ("atom_codes", 1), ("char_code",),
          ("char_type",)]
    for i in range(len(CONCAT_A1)):
        sh.append(("atom_concat", i))
    for a in ATOMS + (["abcd", "a\u00e9b\u20ac", "ab cd", "\U0001F600a\U0001F600"] if tier == "thorough" else []):
        sh.append(("sub_atom", a))
    sh.append(("sub_atom_bad",))
    return sh


def gen(shard):
    """yields (pred, args)"""
    k = shard[0]
    X = V("X")
    if k == "atom_length":
        for A in uniq(ATOMS + [V("X1")] + BAD):
            Ls = [V("X2"), 0, 1, 2, 3, -1, BIG, 1.5, "a", ("f", "x")]
            if is_atom(A):
                Ls += [len(A), len(A) + 1, len(A.encode("utf-8"))]
            for L in uniq(Ls):
                yield "atom_length", (A, L)
    elif k in ("atom_chars", "atom_codes"):
        conv = (lambda s: list(s)) if k == "atom_chars" else (lambda s: [ord(c) for c in s])
        badel = ["ab", 1, ("f", "x"), 1.5] if k == "atom_chars" else ["a", -1, 0x110000, 0xD800, BIG, 1.5, ("f", "x")]
        As = ATOMS + [V("X1"), 1, 1.5, ("f", "x"), T.str_term("ab")]
        if shard[1] == 0:
            # first argument bound or not x second argument derived from each atom's text
            for A in uniq(As):
                Ls = [V("X2"), NIL, 1, ("f", "x"), "a", mklist(conv("a"), "b")]
                for s in ATOMS:
                    el = conv(s)
                    Ls.append(mklist(el))
                    if el:
                        Ls.append(mklist(el[:1], V("_")))              # partial list
                        Ls.append(mklist([V("_")] + el[1:]))           # an element unbound
                        Ls.append(mklist(el[:-1]))                     # one shorter
                        Ls.append(mklist(el + conv("a")))              # one longer
                for L in uniq(Ls):
                    yield k, (A, L)
        else:
            # ill-typed elements at each position
            for A in (V("X1"), "ab", "abc", 1):
                for b in badel:
                    for pos in range(3):
                        el = conv("abc")
                        el[pos] = b
                        yield k, (A, mklist(el))
                    yield k, (A, mklist(conv("a") + [b], V("_")))
    elif k == "char_code":
        chs = [V("X1"), "a", "é", "€", "\U0001F600", "\x00", "ab", "", 1, ("f", "x"), 1.5]
        cos = [V("X2"), 97, 233, 8364, 0x1F600, 0, 98, -1, 0x110000, 0xD800, 0xDFFF, 0xE000, 0xD7FF, 0x10FFFF, 2 ** 31, 2 ** 32,
               2 ** 63, BIG, 1.5, "a", ("f", "x")]
        for c in chs:
            for o in cos:
                yield "char_code", (c, o)
    elif k == "char_type":
        for c in CHARS10 + ["ab", 1, ("f", "x")]:
            for t in CTYPES + ["foo"]:
                yield "char_type", (c, t)
            if is_atom(c) and len(c) == 1:
                for f in ("upper", "lower"):
                    yield "char_type", (c, (f, V("X2")))
                    for w in uniq([c.upper(), c.lower(), "x", ""]):
                        yield "char_type", (c, (f, T.str_term(w)))
    elif k == "atom_concat":
        A1 = CONCAT_A1[shard[1]]
        for A2 in [V("X2"), "", "a", "b", "é", 1.5, ("f", "x"), "\x00", "\x00b", "b\x00", "\x00bcdef"]:
            for A12 in [V("X3"), "", "a", "ab", "abc", "aé", "éa", 1, ("f", "x"), "\x00", "a\x00b", "\x00a", "ab\x00", "a\x00bcdef",
                        "\u00e9\x00a", "a\x00\x00b"]:
                yield "atom_concat", (A1, A2, A12)
    elif k == "sub_atom":
        At = shard[1]
        n = len(At)
        seen = set()
        rows = []
        for b in range(n + 1):
            for l in range(n - b + 1):
                rows.append((b, l, n - b - l, At[b:b + l]))
        rows += [(n + 1, 0, 0, ""), (0, n + 1, 0, At + "z"), (0, 0, n + 1, ""), (0, 1, 0, "z"), (1, 1, 1, "zz")]
        for (b, l, a, s) in rows:
            for mask in range(16):
                args = [At]
                for i, v in enumerate((b, l, a, s)):
                    args.append(V("X%d" % (i + 2)) if mask & (1 << i) else v)
                key = tuple(U.tkey(x) for x in args)
                if key not in seen:
                    seen.add(key)
                    yield "sub_atom", tuple(args)
    elif k == "sub_atom_bad":
        for At in ["ab", "é", V("X1"), 1, ("f", "x"), T.str_term("ab")]:
            base = [At, V("X2"), V("X3"), V("X4"), V("X5")]
            yield "sub_atom", tuple(base)
            for pos in (1, 2, 3):
                for b in (1.5, ("f", "x"), "a", -1, BIG, T.str_term("ab")):
                    args = list(base)
                    args[pos] = b
                    yield "sub_atom", tuple(args)
                    args2 = list(args)
                    args2[4] = "a"
                    yield "sub_atom", tuple(args2)
            for b in (1, 1.5, ("f", "x"), T.str_term("a")):
                args = list(base)
                args[4] = b
                yield "sub_atom", tuple(args)
            # two ill-typed arguments at once
            yield "sub_atom", (At, -1, 1.5, V("X4"), 1)
            yield "sub_atom", (At, "a", -1, -1, V("X5"))


def goal_of(pred, args):
    ctx = T.Ctx("_K")
    pre = []
    txt = [T._lit(a, ctx, pre) for a in args]
    cap = 80
    return "g((%s),%d)" % (",".join(pre + ["%s(%s)" % (pred, ",".join(txt))]), cap)


def obs_names(args):
    out = []
    for a in args:
        if isinstance(a, V) and a.n != "_":
            out.append(a.n)
        elif isinstance(a, tuple) and a[0] in ("upper", "lower") and len(a) == 2 and isinstance(a[1], V):
            out.append(a[1].n)
    return out


def judge(res, pred, args):
    """-> (label, violation kind or None, expected text, observed text)"""
    exp = MODELS[pred](*args)
    et = exp.text()
    if res.abn:
        return "abnormal", "abnormal:" + res.abn, et, res.abn
    if res.status == "exc":
        f = res.formal()
        ot = "error " + T_show(f)
        if exp.impl:
            return "impl_defined", None, et, ot
        if exp.errors:
            if any(U.variant(f, e) for e in exp.errors):
                return "error:" + px.formal_sig(f), None, et, ot
            return "wrong_error", "wrong error %s" % px.formal_sig(f), et, ot
        return "unexpected_error", "unexpected error %s" % px.formal_sig(f), et, ot
    names = obs_names(args)
    sols = [tuple(s.get(n) for n in names) for s in res.sols]
    ot = "%s %s" % (res.status, [tuple(T_show(x) for x in s) for s in sols])
    if exp.impl:
        return "impl_defined", None, et, ot
    if exp.errors:
        if exp.may_fail and not sols and res.status == "done":
            return "fail_instead_of_error", None, et, ot
        return "missing_error", "missing error (%s)" % ("fails" if not sols else "succeeds"), et, ot
    if res.status != "done":
        return "cap", "solution cap reached", et, ot
    want = exp.sols
    if len(sols) != len(want):
        return "wrong_count", "%d solutions expected %d" % (len(sols), len(want)), et, ot
    for i, (s, wv) in enumerate(zip(sols, want)):
        if len(s) != len(wv) or any(x is None or U.tkey(x) != U.tkey(y) for x, y in zip(s, wv)):
            same_set = sorted(map(repr, [tuple(U.tkey(x) if x is not None else None for x in s_) for s_ in sols])) == \
                sorted(map(repr, [tuple(U.tkey(y) for y in w_) for w_ in want]))
            return "wrong_solution", ("wrong order" if same_set else "wrong solution"), et, ot
    n = len(sols)
    return ("sols:%s" % ("0" if n == 0 else "1" if n == 1 else "many")), None, et, ot


def arg_class(a):
    if is_var(a):
        return "-"
    if is_atom(a):
        return "atom" if all(ord(c) < 128 for c in a) else "natom"
    if is_int(a):
        return "int" if 0 <= a < 2 ** 55 else ("neg" if a < 0 else "big")
    if isinstance(a, float):
        return "float"
    if isinstance(a, tuple) and a[0] == ".":
        return "list"
    return "%s/%d" % (a[0], len(a) - 1)


def sig_of(pred, args, vk):
    return "%s(%s): %s" % (pred, ",".join(arg_class(a) for a in args), vk)


def nontrivial(pred, args, exp):
    if any(is_atom(a) and any(ord(c) > 127 or c == "\x00" for c in a) for a in args):
        return True
    return exp.sols is not None and len(exp.sols) > 1


def run_shard(w, shard, tier):
    acc = px.ShardAcc()
    cases = list(gen(shard))
    goals = [goal_of(p, a) for (p, a) in cases]
    rs = px.run_goals(w, goals)
    for (p, a), g, r in zip(cases, goals, rs):
        label, vk, et, ot = judge(r, p, a)
        acc.case(nontrivial(p, a, MODELS[p](*a)), label, sample={"goal": g, "expected": et, "observed": ot})
        if vk:
            acc.violation(sig_of(p, a, vk), {"pred": p, "args": [T.tj(x) for x in a], "goal": g}, expected=et, observed=ot)
    return acc.result()


def recheck(w, case, tier):
    p = case["pred"]
    a = tuple(T.jt(x) for x in case["args"])
    g = goal_of(p, a)
    r = px.run_goals(w, [g])[0]
    label, vk, et, ot = judge(r, p, a)
    if vk:
        return {"sig": sig_of(p, a, vk), "case": case, "expected": et, "observed": ot}
    return None
