"""C49 — integer relation builtins enumerate exactly their relations (DESIGN §6 C49).

Space: arguments over V = {-2,-1,0,1,2,3, 2^70, -(2^70), inf, infinite, 1.0, a, f(x), _}
(thorough adds 4, 5, Fixnum::MAX, Fixnum::MAX+1, 2^63): between/3 all V^3 (<= 6
solutions taken), succ/2 all V^2, numlist/3 all V^2 x {_, [], [_|_], [1,2], foo},
length/2 over 10 list shapes x V (<= 4 solutions).  Every call runs under
call_with_inference_limit/3 (10^5), so non-termination is observed, not suffered;
where the model relation is finite, running into the limit is a violation.
Oracle: Python generators for the relations and the set of applicable documented
errors for ill-typed calls.
"""
import itertools
import os
import sys

from vx.core import px, terms
from vx.core.terms import V as Var
from vx.model import numbers as N

if hasattr(sys, "set_int_max_str_digits"):
    sys.set_int_max_str_digits(0)

ID = "C49"
LEVEL = "exploration"
ENGINE = "PEX"
TECHNIQUE = "bounded exhaustive exploration of argument tuples against Python generators of the relations, under an inference limit"
LEVEL_TEXT = ("every argument tuple of the bounded space is executed in every instantiation mode on the real machine "
              "under an inference limit; the solution sequence (order, multiplicity, bindings), the terminal status and "
              "the error class are compared with a reference generator; exhaustive over the alphabet")
RULE = ("between/3: all V^3; succ/2: all V^2; numlist/3: all V^2 x 5 list patterns; length/2: 10 list shapes x V, "
        "V = 14 values (19 thorough). Non-trivial: the call enumerates (>= 2 solutions expected or an infinite "
        "relation) or involves a bignum or inf.")
ASSUMPTIONS = [
    "call_with_inference_limit/3 (limit 10^5) turns non-termination into an observable answer",
    "where several documented errors apply the oracle accepts any of them; negative integers may raise "
    "type_error or domain_error(not_less_than_zero, _); an atom `inf`/`infinite` bound of between/3 may either be "
    "rejected with type_error(integer, _) (documented here) or enumerate upwards",
    "length/2 with a bignum length may raise any exception (resource exhaustion; the ball is not compared because of "
    "the stale pre-allocated resource-error term, DESIGN D16)",
    "for infinite relations only soundness, order (between/length) and absence of duplicates of the first solutions are checked",
]
MIN_OUTCOMES = 5

LIMIT = 100000
BIG = 2 ** 70


def alphabet(tier):
    v = ["i:-2", "i:-1", "i:0", "i:1", "i:2", "i:3", "i:%d" % BIG, "i:%d" % -BIG, "a:inf", "a:infinite",
         "f:1.0", "a:a", "c:f(x)", "var"]
    if tier == "thorough":
        v += ["i:4", "i:5", "i:%d" % N.FIX_MAX, "i:%d" % (N.FIX_MAX + 1), "i:%d" % 2 ** 63]
    return v


LISTPATS = ["var", "nil", "cons", "l12", "foo"]                     # numlist/3 third argument
LISTPAT_TEXT = {"var": "Lst", "nil": "[]", "cons": "[H0|T0]", "l12": "[1,2]", "foo": "foo"}
SHAPES = ["nil", "l1", "l2", "p1", "p2", "var", "improper", "foo", "str", "cyclic"]   # length/2 first argument
SHAPE_TEXT = {"nil": "[]", "l1": "[a]", "l2": "[a,b]", "p1": "[a|T]", "p2": "[a,b|T]", "var": "T",
              "improper": "[a|b]", "foo": "foo", "str": '"ab"', "cyclic": "Lc"}


def bound_text(tier):
    n = len(alphabet(tier))
    return "between/3 %d^3, succ/2 %d^2, numlist/3 %d^2 x 5, length/2 10 x %d argument tuples" % (n, n, n, n)


# ---- arguments ---------------------------------------------------------------------------------

def kind(a):
    return a.split(":", 1)[0] if a != "var" else "var"


def ival(a):
    return int(a.split(":", 1)[1])


def is_int(a):
    return kind(a) == "i"


def arg_text(a, var):
    if a == "var":
        return var
    k, v = a.split(":", 1)
    if k == "i":
        return terms.fmt_num(int(v))
    return v


def culprit(a):
    k, v = a.split(":", 1)
    if k == "a":
        return v
    if k == "f":
        return float(v)
    if k == "c":
        return ("f", "x")
    return int(v)


def TE(a):
    return ("type_error", "integer", culprit(a))


INST = "instantiation_error"


def neg_errors(a):
    c = culprit(a)
    return [("type_error", "not_less_than_zero", c), ("domain_error", "not_less_than_zero", c)]


# ---- models: -> dict(errors=[formals], sols=[dict var->value] | None, infinite=bool, check=callable|None) -----

def model_between(L, U, X):
    errs = []
    alt_enum = False
    if L == "var" or U == "var":
        errs.append(INST)
    for a in (L, U):
        if a != "var" and not is_int(a):
            errs.append(TE(a))
    if X != "var" and not is_int(X):
        errs.append(TE(X))
    if errs:
        # an `inf` upper bound may also be taken as infinity
        if is_int(L) and U in ("a:inf", "a:infinite") and (X == "var" or is_int(X)):
            lo = ival(L)
            if X == "var":
                return {"errors": errs, "sols": [{"X": lo + i} for i in range(6)], "infinite": True}
            return {"errors": errs, "sols": [{}] if ival(X) >= lo else [], "infinite": False}
        return {"errors": errs, "sols": None}
    lo, hi = ival(L), ival(U)
    if X != "var":
        return {"errors": [], "sols": [{}] if lo <= ival(X) <= hi else [], "infinite": False}
    n = max(0, hi - lo + 1)
    return {"errors": [], "sols": [{"X": lo + i} for i in range(min(n, 7))], "infinite": False, "count": n}


def model_succ(I, S):
    errs = []
    if I == "var" and S == "var":
        errs.append(INST)
    for a in (I, S):
        if a != "var" and not is_int(a):
            errs.append(TE(a))
        elif is_int(a) and ival(a) < 0:
            errs += neg_errors(a)
    if errs:
        return {"errors": errs, "sols": None}
    if is_int(S):
        s = ival(S)
        if s <= 0:
            return {"errors": [], "sols": [], "infinite": False}
        if is_int(I):
            return {"errors": [], "sols": [{}] if ival(I) == s - 1 else [], "infinite": False}
        return {"errors": [], "sols": [{"I": s - 1}], "infinite": False}
    return {"errors": [], "sols": [{"S": ival(I) + 1}], "infinite": False}


def model_numlist(L, U, pat):
    errs = []
    for a in (L, U):
        if a != "var" and not is_int(a):
            errs.append(TE(a))
    if errs:
        return {"errors": errs, "sols": None}
    if pat == "foo":
        # no tuple has a non-list third argument: finite failure, or findall/3's type_error(list, foo)
        huge = is_int(L) and is_int(U) and ival(U) - ival(L) > 2000
        if huge:
            return {"errors": [], "sols": None, "huge": True}
        return {"errors": [("type_error", "list", "foo")], "sols": [], "infinite": False, "fail_ok": True}
    if is_int(L) and is_int(U):
        lo, hi = ival(L), ival(U)
        if lo > hi or pat in ("nil", "foo") or (pat == "l12" and (lo, hi) != (1, 2)):
            if hi - lo > 2000:
                return {"errors": [], "sols": None, "huge": True}
            return {"errors": [], "sols": [], "infinite": False}
        if hi - lo > 2000:
            return {"errors": [], "sols": None, "huge": True}
        return {"errors": [], "sols": [{"#list": list(range(lo, hi + 1))}], "infinite": False}
    # at least one bound unknown
    if pat in ("nil", "foo"):
        return {"errors": [], "sols": [], "infinite": False}
    if pat == "l12":
        ok = (L == "var" or ival(L) == 1) and (U == "var" or ival(U) == 2)
        return {"errors": [], "sols": [{"#lo": 1, "#hi": 2}] if ok else [], "infinite": False}
    return {"errors": [], "sols": "sound", "infinite": True}


def model_length(shape, Nn):
    """-> dict; 'accept' is a list of acceptable outcome classes for the non-enumerating cases"""
    errs = []
    if Nn != "var" and not is_int(Nn):
        errs.append(TE(Nn))
    known = {"nil": 0, "l1": 1, "l2": 2, "str": 2}
    partial = {"p1": 1, "p2": 2, "var": 0}
    neg = [("domain_error", "not_less_than_zero", ival(Nn))] if is_int(Nn) and ival(Nn) < 0 else []
    if shape in ("improper", "foo"):
        return {"errors": errs + neg + [("type_error", "list", None)], "sols": [] if not errs else None, "infinite": False,
                "fail_ok": True}
    if shape == "cyclic":
        return {"errors": errs + neg + [("type_error", "list", None), ("resource_error", "finite_memory")],
                "sols": [] if not errs else None, "infinite": False, "fail_ok": True}
    if errs:
        return {"errors": errs, "sols": None}
    if is_int(Nn) and ival(Nn) < 0:
        return {"errors": [("domain_error", "not_less_than_zero", ival(Nn))], "sols": [], "infinite": False, "fail_ok": True}
    if shape in known:
        k = known[shape]
        if Nn == "var":
            return {"errors": [], "sols": [{"N": k}], "infinite": False}
        return {"errors": [], "sols": [{}] if ival(Nn) == k else [], "infinite": False}
    k = partial[shape]
    if Nn == "var":
        return {"errors": [], "sols": [{"N": k + i, "#tail": i} for i in range(5)], "infinite": True}
    n = ival(Nn)
    if n > 10000:
        return {"errors": [], "sols": None, "huge": True}
    return {"errors": [], "sols": [{"#tail": n - k}] if n >= k else [], "infinite": False}


# ---- goals ------------------------------------------------------------------------------------------

def goal_of(case):
    p = case[0]
    if p == "between":
        g = "between(%s, %s, %s)" % (arg_text(case[1], "L"), arg_text(case[2], "U"), arg_text(case[3], "X"))
        cap = 6
    elif p == "succ":
        g = "succ(%s, %s)" % (arg_text(case[1], "I"), arg_text(case[2], "S"))
        cap = 4
    elif p == "numlist":
        g = "numlist(%s, %s, %s)" % (arg_text(case[1], "L"), arg_text(case[2], "U"), LISTPAT_TEXT[case[3]])
        cap = 4
    else:
        g = "length(%s, %s)" % (SHAPE_TEXT[case[1]], arg_text(case[2], "N"))
        if case[1] == "cyclic":
            g = "Lc = [a|Lc], " + g
        cap = 4
    return "g((call_with_inference_limit((%s), %d, Lim)), %d)" % (g, LIMIT, cap), cap


# ---- judging --------------------------------------------------------------------------------------------

def err_ok(f, wants):
    for w in wants:
        if w == INST:
            if f == INST:
                return True
        elif isinstance(f, tuple) and f[0] == w[0] and f[1] == w[1]:
            if len(w) < 3 or w[2] is None:
                return True
            c = f[2] if len(f) > 2 else None
            if isinstance(w[2], float):
                if isinstance(c, float) and c == w[2]:
                    return True
            elif c == w[2] and type(c) == type(w[2]):
                return True
    return False


def list_to_py(t):
    el, tail = terms.unlist(t)
    return el, tail


def judge(case, res, cap):
    """-> (label, kind | None, expected text, observed text)"""
    p = case[0]
    m = {"between": model_between, "succ": model_succ, "numlist": model_numlist, "length": model_length}[p](*case[1:])
    if res.abn:
        return ("abnormal", "abnormal:" + res.abn, "an answer", res.abn)
    sols = [s for s in res.sols if s.get("Lim") != "inference_limit_exceeded"]
    limited = len(sols) != len(res.sols)
    obs = "status=%s sols=%s%s" % (res.status, [{k: terms.show(v) for k, v in s.items() if k != "Lim"} for s in res.sols][:6],
                                   " exc=" + terms.show(res.exc) if res.status == "exc" else "")
    exp = "errors=%s sols=%s" % (m.get("errors"), m.get("sols"))
    if m.get("huge"):
        if res.status == "exc" or limited:
            return ("huge:refused", None, exp, obs)
        return ("huge:answered", None, exp, obs)
    if res.status == "exc":
        f = res.formal()
        if sols and not m.get("infinite"):
            return ("error_after_solutions", "error_after_solutions:" + px.formal_sig(f), exp, obs)
        if m["errors"] and err_ok(f, m["errors"]):
            return ("error:" + px.formal_sig(f), None, exp, obs)
        return ("wrong_error" if m["errors"] else "unexpected_error",
                ("wrong_error:" if m["errors"] else "unexpected_error:") + px.formal_sig(f), exp, obs)
    # no exception
    if m["sols"] is None:
        return ("missing_error", "missing_error:got_%s" % ("limit" if limited else "sols=%d" % len(sols)), exp, obs)
    if m["errors"] and not m.get("fail_ok") and m["sols"] is not None and not m.get("infinite") and p != "between":
        pass
    if m["sols"] == "sound":
        # infinite relation without a fixed order: soundness and no duplicates
        seen = []
        for s in sols:
            k = check_numlist_sol(case, s)
            if k is None:
                return ("unsound_solution", "unsound_solution", exp, obs)
            if k in seen:
                return ("duplicate_solution", "duplicate_solution", exp, obs)
            seen.append(k)
        if len(sols) < cap and not limited:
            return ("incomplete", "terminated_on_infinite_relation", exp, obs)
        return ("enumerates:%s" % ("limit" if limited else "cap"), None, exp, obs)
    want = m["sols"]
    if m.get("infinite"):
        want = want[:cap]
        if limited and len(sols) < len(want):
            return ("limit_before_cap", "inference_limit_on_enumeration", exp, obs)
    else:
        total = m.get("count", len(want))
        if limited:
            return ("nontermination", "inference_limit_exceeded:finite_relation_of_%s" % (total if total < 7 else "many"), exp, obs)
        want = want[:cap]
        want_status = "cap" if total >= cap else "done"
        if res.status != want_status:
            return ("wrong_count", "wrong_solution_count:got_%s_%d_want_%s_%d" % (res.status, len(sols), want_status, len(want)), exp, obs)
    if len(sols) != len(want):
        return ("wrong_count", "wrong_solution_count:got_%d_want_%d" % (len(sols), len(want)), exp, obs)
    for s, wv in zip(sols, want):
        if not sol_matches(case, s, wv):
            return ("wrong_solution", "wrong_solution", exp, obs)
    n = len(want)
    return ("ok:%s" % ("fails" if n == 0 else "test" if want == [{}] else "sols=%d%s" % (n, "+" if m.get("infinite") else "")),
            None, exp, obs)


def intval(x):
    return x if isinstance(x, int) and not isinstance(x, bool) else None


def sol_matches(case, s, wv):
    for k, v in wv.items():
        if k == "#list":
            el, tail = terms.unlist(s.get("Lst")) if case[3] == "var" else (None, None)
            if case[3] == "var":
                if tail != terms.NIL or el != v:
                    return False
            elif case[3] == "cons":
                if s.get("H0") != v[0]:
                    return False
                el, tail = terms.unlist(s.get("T0"))
                if tail != terms.NIL or el != v[1:]:
                    return False
        elif k == "#lo":
            if case[1] == "var" and s.get("L") != v:
                return False
        elif k == "#hi":
            if case[2] == "var" and s.get("U") != v:
                return False
        elif k == "#tail":
            el, tail = terms.unlist(s.get("T"))
            if tail != terms.NIL or len(el) != v or any(not isinstance(e, Var) for e in el) or len(set(el)) != len(el):
                return False
        else:
            got = s.get(k)
            if isinstance(got, bool) or got != v or type(got) != type(v):
                return False
    return True


def check_numlist_sol(case, s):
    """soundness of one numlist/3 solution of an infinite mode -> key or None"""
    lo = ival(case[1]) if is_int(case[1]) else intval(s.get("L"))
    hi = ival(case[2]) if is_int(case[2]) else intval(s.get("U"))
    if lo is None or hi is None or lo > hi or hi - lo > 100000:
        return None
    want = list(range(lo, hi + 1))
    if case[3] == "var":
        el, tail = terms.unlist(s.get("Lst"))
    else:
        el, tail = terms.unlist(s.get("T0"))
        el = [s.get("H0")] + el
    if tail != terms.NIL or el != want:
        return None
    return (lo, hi)


def arg_class(a):
    if a == "var":
        return "var"
    k = kind(a)
    if k == "i":
        return N.mag_class(ival(a))
    return {"a": a.split(":")[1] if a in ("a:inf", "a:infinite") else "atom", "f": "float", "c": "compound"}[k]


def sig_of(case, kindtxt):
    p = case[0]
    if p in ("between", "succ"):
        return "%s(%s) %s" % (p, ",".join(arg_class(a) for a in case[1:]), kindtxt)
    if p == "numlist":
        return "numlist(%s,%s,%s) %s" % (arg_class(case[1]), arg_class(case[2]), case[3], kindtxt)
    return "length(%s,%s) %s" % (case[1], arg_class(case[2]), kindtxt)


def nontrivial(case):
    args = [a for a in case[1:] if ":" in a or a == "var"]
    if any(a in ("a:inf", "a:infinite") or (is_int(a) and abs(ival(a)) >= 2 ** 55) for a in args if a != "var"):
        return True
    return "var" in case[1:] or case[0] == "length" and case[1] in ("p1", "p2", "var")


# ---- module interface ----------------------------------------------------------------------------------------

def setup(w, tier):
    r = w.consult(":- use_module(library(between)).\n:- use_module(library(lists)).\n:- use_module(library(iso_ext)).\n",
                  persist=True)
    if r.get("out", "").strip():
        raise px.pool.MachineryError("C49 setup: %r" % (r,))


def shards(tier):
    A = alphabet(tier)
    sh = [("between", a) for a in A]
    sh += [("succ",), ("length",)]
    sh += [("numlist", p) for p in LISTPATS]
    return sh


def gen(shard, tier):
    A = alphabet(tier)
    k = shard[0]
    if k == "between":
        for u in A:
            for x in A:
                yield ["between", shard[1], u, x]
    elif k == "succ":
        for i in A:
            for s in A:
                yield ["succ", i, s]
    elif k == "numlist":
        for lo in A:
            for hi in A:
                yield ["numlist", lo, hi, shard[1]]
    else:
        for sh in SHAPES:
            for n in A:
                yield ["length", sh, n]


def run_cases(w, cases):
    gs = [goal_of(c) for c in cases]
    rs = px.run_goals(w, [g for g, _ in gs])
    return [(c, r, cap) for c, (_, cap), r in zip(cases, gs, rs)]


def run_shard(w, shard, tier):
    acc = px.ShardAcc()
    for batch in px.chunked(gen(shard, tier), 200):
        for case, r, cap in run_cases(w, batch):
            label, kindtxt, exp, obs = judge(case, r, cap)
            acc.case(nontrivial(case), case[0] + ":" + label, sample={"goal": goal_of(case)[0], "observed": obs[:300]})
            if kindtxt:
                acc.violation(sig_of(case, kindtxt), {"case": case, "goal": goal_of(case)[0]}, expected=exp, observed=obs[:600])
    return acc.result()


def recheck(w, case, tier):
    c = case["case"]
    (_, r, cap), = run_cases(w, [c])
    label, kindtxt, exp, obs = judge(c, r, cap)
    if kindtxt:
        return {"sig": sig_of(c, kindtxt), "case": case, "expected": exp, "observed": obs[:600]}
    return None
