"""C14 — sorting builtins and collection libraries match their models (DESIGN §6 C14).

(a) exhaustive sweep: every list of length <= 4 (quick) / 5 (thorough) over a
    9-element mixed alphabet, through three representation routes, under ~45
    observations of sort/2, keysort/2 and library(lists)/(pairs)/(ordsets);
    numeric lists under sum_list/list_max/list_min; all pairs of ordsets over a
    4 (5) element universe under every library(ordsets) predicate.
(b) explicit-state search over library(assoc): state = the implementation's
    AVL term, deduplicated by that term, explored to a fixpoint over a small
    key/value alphabet; every transition result is checked structurally (AVL
    shape, balance annotations, in-order content = Python dict) and every
    distinct state is observed through the library's own accessors.
"""
import itertools
import re

from vx.core import px
from vx.core.terms import V, fmt, mklist, unlist, chars_list, NIL
from vx.model import c14_model as M

ID = "C14"
LEVEL = "model_checking"
ENGINE = "PEX"
TECHNIQUE = "bounded exhaustive input sweep + explicit-state search (BFS to fixpoint) against Python list/set/dict models"
LEVEL_TEXT = ("explicit-state search over the real library(assoc) transition function, deduplicated by the "
              "implementation's own AVL term and closed under put/del/del_min/del_max/replace/rebuild, plus an "
              "exhaustive input sweep of the list, pairs and ordset predicates")
RULE = ("lists: all lists of length <= bound over {1,2,1.0,a,b,\"a\",f(a),X,Y} x routes {lit, cons, bind} x every "
        "observation (one evaluation = one predicate call pattern on one list); non-trivial: the list has "
        "duplicates under == or mixes term kinds. ordsets: all ordered pairs of subsets of the universe; "
        "non-trivial: both sets non-empty. long lists: lengths {21,24,33,50,64,100,257,1000} x 23 deterministic key arrangements "
        "(all equal, alternating, descending runs, sawteeth, strides, mixed standard-order classes) x {literal, rebuilt} with values 1..n; "
        "non-trivial: some key is repeated. assoc: breadth-first closure from the empty assoc; non-trivial "
        "transition: the tree is restructured (some surviving key changes its parent) or an inner node is deleted.")
ASSUMPTIONS = ["Python sorted() is a stable sort; Python dict/list semantics",
               "standard order Var < Float < Integer < Atom < Compound as stated by C13; the relative order of "
               "two distinct variables is not specified (both orders accepted)",
               "solution order of member/select/append/nth0/nth1 enumeration is list order; permutation/2 is "
               "compared as a multiset of solutions",
               "driver transport (vx_first/vx_all, term emitter)"]
MIN_OUTCOMES = 8

# --------------------------------------------------------------------------
# alphabets

ELEMS = [("1", 1), ("2", 2), ("1.0", 1.0), ("a", "a"), ("b", "b"),
         ('"a"', chars_list("a")), ("f(a)", ("f", "a")), ("X", V("X")), ("Y", V("Y"))]
ROUTES = ["lit", "cons", "bind"]
NUMS = [("0", 0), ("1", 1), ("2", 2), ("-3", -3), ("1.0", 1.0), ("2.5", 2.5),
        ("36028797018963968", 2 ** 55), ("100000000000000000000", 10 ** 20)]

ORD_U = {"quick": [("1.0", 1.0), ("1", 1), ("a", "a"), ("f(b)", ("f", "b"))],
         "thorough": [("1.0", 1.0), ("1", 1), ("a", "a"), ("f(b)", ("f", "b")), ('"a"', chars_list("a"))]}
ORD_EXTRA = [("0.5", 0.5), ("0", 0), ("b", "b"), ("g(a,b)", ("g", "a", "b"))]  # probes around the universe

ASSOC_ALPHA = {
    "int5xy": ([(str(i), i) for i in range(1, 6)], ["x", "y"]),
    "mixed5xy": ([("0.5", 0.5), ("1", 1), ("a", "a"), ("f(a)", ("f", "a")), ('"a"', chars_list("a"))], ["x", "y"]),
    "int6x": ([(str(i), i) for i in range(1, 7)], ["x"]),
    "int7xy": ([(str(i), i) for i in range(1, 8)], ["x", "y"]),
    "int6xy": ([(str(i), i) for i in range(1, 7)], ["x", "y"]),
    "mixed6xy": ([("0.5", 0.5), ("1", 1), ("a", "a"), ("f(a)", ("f", "a")), ('"a"', chars_list("a")),
                  ("g(a,b)", ("g", "a", "b"))], ["x", "y"]),
    "int10x": ([(str(i), i) for i in range(1, 11)], ["x"]),
}


def maxlen(tier):
    return 5 if tier == "thorough" else 4


def bound_text(tier):
    n = maxlen(tier)
    return ("all lists of length <= %d over 9 mixed elements (length 5: literal route only; cons/bind routes and permutation/2: <= 4); numeric lists of length <= 4 over 8 numbers; "
            "all pairs of ordsets over a %d-element universe; library(assoc) closed to a fixpoint over %s"
            % (n, len(ORD_U[tier]), ", ".join(assoc_alphas(tier))))


def assoc_alphas(tier):
    if tier == "thorough":
        return ["int7xy", "int10x", "int6xy", "mixed6xy", "int5xy", "mixed5xy", "int6x"]
    return ["int5xy", "mixed5xy", "int6x"]


def shards(tier):
    sh = []
    n = maxlen(tier)
    for a in assoc_alphas(tier):  # the long sequential shards first
        sh.append(("assoc", a))
    for route in ROUTES:
        sh.append(("list", route, 0, None, None))
        for ln in range(1, n + 1):
            if ln >= 5 and route != "lit":
                continue  # length 5 through the literal route only; cons and bind are bounded at 4
            for first in range(len(ELEMS)):
                if ln >= 5:
                    for second in range(len(ELEMS)):
                        sh.append(("list", route, ln, first, second))
                else:
                    sh.append(("list", route, ln, first, None))
    for first in range(len(NUMS)):
        sh.append(("num", first))
    nu = len(ORD_U[tier])
    for a in range(0, 1 << nu, 4):
        sh.append(("ordpair", a, min(a + 4, 1 << nu)))
    sh.append(("ordelem",))
    sh.append(("ordlists",))
    sh.append(("ordunion2",))
    sh.append(("ordmember",))
    sh.append(("misc",))
    for n in LONG_LENS:
        sh.append(("long", n))
    return sh


def setup(w, tier):
    import os
    w.consult(":- use_module(library(lists)).\n:- use_module(library(pairs)).\n"
              ":- use_module(library(ordsets)).\n:- use_module(library(assoc)).\n", persist=True)
    with open(os.path.join(os.path.dirname(os.path.dirname(os.path.abspath(__file__))), "prolog", "c14_helper.pl")) as f:
        w.consult(f.read(), persist=True)


# --------------------------------------------------------------------------
# text of a list through a route -> (prelude goals text, list text)

def route_text(texts, route, pfx="_E"):
    if route == "lit":
        return "", "[" + ",".join(texts) + "]"
    if route == "cons":
        t = "[]"
        for e in reversed(texts):
            t = "'.'(%s,%s)" % (e, t)
        return "", t
    if route == "bind":
        if not texts:
            return "", "[]"
        names = ["%s%d" % (pfx, i) for i in range(len(texts))]
        pre = ",".join("%s = %s" % (n, e) for n, e in zip(names, texts))
        return pre + ",", "[" + ",".join(names) + "]"
    raise ValueError(route)


def is_char(x):
    return isinstance(x, str) and len(x) == 1


def shape_of(xs, route):
    """does the reader turn a prefix of this list into a partial string whose
    tail is not [] (the class behind DESIGN §8-D3)?"""
    if route == "lit":
        if xs and is_char(xs[0]) and not all(is_char(x) for x in xs):
            return "pstrtail"
    elif route == "cons":
        for i, x in enumerate(xs):
            if is_char(x) and not all(is_char(y) for y in xs[i + 1:]):
                return "pstrtail"
    return "plain"


_GLOBAL_VARS = {"L", "X", "Y", "A", "B"}
_VAR_RE = re.compile(r"(?<![A-Za-z0-9_'\"])([A-Z][A-Za-z0-9]*)\b")


def localise(text, j, keep=None):
    """every observation gets its own copies of its local variables (vx_first
    leaves its bindings in place, so two observations must not share S, R, ...).
    L, X, Y (the list and its variables) and A, B (ordsets) stay shared."""
    keep = _GLOBAL_VARS if keep is None else keep
    return _VAR_RE.sub(lambda m: m.group(1) if m.group(1) in keep else "%s_%d" % (m.group(1), j), text)


# --------------------------------------------------------------------------
# observations on one list. Each entry: (name, goal text pieces, expectation)
# expectation kinds:
#   ("det", [candidate result terms])   first solution's template (paired with L)
#   ("false",)                          no solution
#   ("bool", {True, False} subset)      vx_outcome
#   ("all", [solution templates], ordered)

def list_observations(idx, route):
    """-> (L, xs, [(name, expectation)]) in the result order of c14_list/7 (c14_helper.pl)"""
    xs = [ELEMS[i][1] for i in idx]
    n = len(xs)
    L = mklist(xs)
    vs = M.term_vars(L)
    orders = M.var_orders(vs)
    fr = M.Fresh()
    obs = []

    def det(name, cands):
        obs.append((name, ("det", cands)))

    def nosol(name):
        obs.append((name, ("false",)))

    def boolean(name, vals):
        obs.append((name, ("bool", vals)))

    def allsol(name, sols, ordered=True):
        obs.append((name, ("all", sols, ordered)))

    def uniq(cands):
        out = []
        for c in cands:
            if not any(M.identical(c, o) for o in out):
                out.append(c)
        return out

    pairs = [("-", x, i + 1) for i, x in enumerate(xs)]
    sorted_c = uniq([mklist(M.sort_dedup(xs, vr)) for vr in orders])
    det("sort", sorted_c)                                   # sort(L,S)
    det("list_to_ord_set", sorted_c)                        # list_to_ord_set(L,S)
    boolean("is_ordset", set(M.is_ordset(xs, vr) for vr in orders))
    det("keysort", uniq([mklist(M.keysort(pairs, vr)) for vr in orders]))   # keysort([E1-1,..,En-n],S)
    det("list_to_set", [mklist(M.list_to_set(xs))])
    det("reverse", [mklist(xs[::-1])])                      # reverse(L,R)
    det("reverse_back", [mklist(xs[::-1])])                 # reverse(R,L)
    det("length", [n])
    det("same_length", [mklist([fr() for _ in xs])])        # same_length(L,S)
    det("same_length_back", [mklist([fr() for _ in xs])])   # same_length(S,L)
    for k in range(0, n + 1):                               # nth0(k,L,E)
        det("nth0@%d" % k, [xs[k]]) if k < n else nosol("nth0@end")
    for k in range(0, n + 1):                               # nth0(k,L,E,R)
        det("nth0/4@%d" % k, [("-", xs[k], mklist(xs[:k] + xs[k + 1:]))]) if k < n else nosol("nth0/4@end")
    for k in range(0, n + 2):                               # nth0(k,L2,z,L)
        det("nth0/4ins@%d" % k, [mklist(xs[:k] + ["z"] + xs[k:])]) if k <= n else nosol("nth0/4ins@end")
    for k in range(0, n + 2):                               # nth1(k,L,E)
        det("nth1@%d" % k, [xs[k - 1]]) if 1 <= k <= n else nosol("nth1@%s" % ("0" if k == 0 else "end"))
    for k in range(0, n + 2):                               # nth1(k,L,E,R)
        (det("nth1/4@%d" % k, [("-", xs[k - 1], mklist(xs[:k - 1] + xs[k:]))]) if 1 <= k <= n
         else nosol("nth1/4@%s" % ("0" if k == 0 else "end")))
    allsol("nth0_enum", [("s", L, i, xs[i]) for i in range(n)])
    allsol("nth1_enum", [("s", L, i + 1, xs[i]) for i in range(n)])
    allsol("nth0/4_enum", [("s", L, i, xs[i], mklist(xs[:i] + xs[i + 1:])) for i in range(n)])
    allsol("nth1/4_enum", [("s", L, i + 1, xs[i], mklist(xs[:i] + xs[i + 1:])) for i in range(n)])
    allsol("nth0/4_ins_enum", [("s", L, i, mklist(xs[:i] + ["z"] + xs[i:])) for i in range(n + 1)])
    allsol("append_split", [("s", L, mklist(xs[:i]), mklist(xs[i:])) for i in range(n + 1)])   # append(P,S,L)
    det("append_end", [mklist(xs + ["z"])])                 # append(L,[z],R)
    det("append_front", [mklist(["z"] + xs)])               # append([z],L,R)
    k = n // 2
    det("append_suffix", [mklist(xs[k:])])                  # append(Pre,S,L)
    allsol("append_prefix", [("s", L, mklist(xs[:k]))], ordered=False)   # append(P,Suf,L)
    det("append/2", [L])                                    # append([Pre,[],Suf],R)
    allsol("select_enum", [("s", L, xs[i], mklist(xs[:i] + xs[i + 1:])) for i in range(n)])   # select(E,L,R)
    allsol("select_insert", [("s", L, mklist(xs[:i] + ["z"] + xs[i:])) for i in range(n + 1)])  # select(z,L0,L)
    for pat_t, pat in (("a", "a"), ("1", 1)):
        sols, msols = [], []
        for i in range(n):
            u = M.unify_simple(pat, xs[i])
            if u is not None:
                sols.append(("s", M.subst(L, u), M.subst(mklist(xs[:i] + xs[i + 1:]), u)))
                msols.append(("s", M.subst(L, u)))
        allsol("select_%s" % pat_t, sols)                   # select(a,L,R)
        allsol("member_%s" % pat_t, msols)                  # member(a,L)
        boolean("memberchk_%s" % pat_t, {bool(msols)})
    allsol("member_enum", [("s", L, x) for x in xs])
    perms = [("s", L, mklist([xs[i] for i in p])) for p in itertools.permutations(range(n))] if n <= 4 else []
    if n <= 4:
        allsol("permutation", perms, ordered=False)         # permutation(L,P)
    else:
        obs.append(("permutation", ("skip",)))
    if n <= 3:
        allsol("permutation_back", perms, ordered=False)    # permutation(P,L)
    else:
        obs.append(("permutation_back", ("skip",)))
    P = mklist(pairs)
    ints = mklist([i + 1 for i in range(n)])
    det("pairs_kv(-,+,+)", [P])                             # pairs_keys_values(Ps,L,[1..n])
    det("pairs_kv(+,-,-)", [("-", L, ints)])                # pairs_keys_values([E1-1,..],K,V)
    det("pairs_keys", [L])
    det("pairs_values", [ints])
    fvs = [fr() for _ in xs]
    det("pairs_kv(-,+,-)", [("-", mklist([("-", x, f) for x, f in zip(xs, fvs)]), mklist(fvs))])
    if any(isinstance(x, V) for x in xs):
        obs.append(("pairs_kv_nonpair", ("skip",)))
    elif n == 0:
        allsol("pairs_kv_nonpair", [("-", NIL, NIL)])
    else:
        allsol("pairs_kv_nonpair", [])                      # pairs_keys_values(L,K,V): elements are not pairs
    return L, xs, obs


def list_command(idx, route):
    """-> (command text, L, xs, [(name, expectation)])"""
    L, xs, obs = list_observations(idx, route)
    texts = [ELEMS[i][0] for i in idx]
    n = len(texts)
    pre, ltxt = route_text(texts, route)
    ptexts = ["%s-%d" % (t, i + 1) for i, t in enumerate(texts)]
    ppre, ptxt = route_text(ptexts, route, "_P")
    k = n // 2
    text = ("g((%s L = %s, %s Ps = %s, c14_list(L,%d,Ps,[%s],[%s],[%s],Rs)), 1)"
            % (pre, ltxt, ppre, ptxt, n, ",".join(texts[:k]), ",".join(texts[k:]),
               ",".join(str(i + 1) for i in range(n))))
    return text, L, xs, obs


def parse_first(r):
    """vx_first / vx_outcome result term -> (kind, payload)"""
    if r == "false":
        return ("false", None)
    if r == "true":
        return ("true", None)
    if isinstance(r, tuple) and r[0] == "sol" and len(r) == 2:
        return ("sol", r[1])
    if isinstance(r, tuple) and r[0] == "error" and len(r) == 2:
        return ("error", r[1])
    if isinstance(r, tuple) and r[0] == "ball":
        return ("ball", r[1])
    return ("?", r)


def judge_obs(exp, res, obsL, absL):
    """res: the result element of this observation -> (label, violation kind or None, observed summary)"""
    kind = exp[0]
    if kind == "skip":
        return ("skipped", None, None)
    if kind in ("det", "false", "bool"):
        k, p = parse_first(res)
        if k == "error":
            return ("error", "unexpected_error:" + px.formal_sig(p), fmt_obs(p))
        if k in ("ball", "?"):
            return ("ball", "unexpected_ball", fmt_obs(p))
        if kind == "det":
            if k != "sol":
                return ("nosol", "unexpected_failure", "failed")
            for c in exp[1]:
                if M.variant(("p", absL, c), ("p", obsL, p)):
                    return ("sol", None, None)
            return ("sol", "wrong_value", fmt_obs(p))
        if kind == "false":
            if k == "false":
                return ("false", None, None)
            return ("sol", "unexpected_success", fmt_obs(p))
        if kind == "bool":
            val = {"true": True, "false": False}.get(k)
            if val in exp[1]:
                return (k, None, None)
            return (k, "wrong_truth_value", k)
    if kind == "all":
        if not (isinstance(res, tuple) and res[0] == "all" and len(res) == 3):
            return ("?", "bad_result_term", fmt_obs(res))
        sols, _ = unlist(res[1])
        st = res[2]
        if st != "done":
            if isinstance(st, tuple) and st[0] == "error":
                return ("error", "unexpected_error:" + px.formal_sig(st[1]), fmt_obs(st[1]))
            return ("status", "bad_status:" + fmt_obs(st)[:30], fmt_obs(st))
        want = exp[1]
        label = "%dsols" % len(sols) if len(sols) < 7 else "7+sols"
        if len(sols) != len(want):
            return (label, "solution_count:%d!=%d" % (len(sols), len(want)), [fmt_obs(s) for s in sols][:8])
        if exp[2]:
            for e, o in zip(want, sols):
                if not M.variant(e, o):
                    return (label, "wrong_solutions", [fmt_obs(s) for s in sols][:8])
            return (label, None, None)
        left = list(sols)
        for e in want:
            for i, o in enumerate(left):
                if M.variant(e, o):
                    del left[i]
                    break
            else:
                return (label, "wrong_solution_multiset", [fmt_obs(s) for s in sols][:8])
        return (label, None, None)
    raise ValueError(kind)


def fmt_obs(t):
    try:
        return fmt(renumber(t))
    except Exception:
        return repr(t)


def renumber(t):
    if isinstance(t, V):
        return V("_V%s" % t.n) if isinstance(t.n, int) else t
    if isinstance(t, tuple):
        return (t[0],) + tuple(renumber(a) for a in t[1:])
    return t


def exp_text(exp):
    if exp[0] == "det":
        return " | ".join(fmt(c) for c in exp[1])
    if exp[0] == "false":
        return "fails"
    if exp[0] == "skip":
        return "not compared"
    if exp[0] == "bool":
        return "/".join(sorted(str(b).lower() for b in exp[1]))
    return "[" + "; ".join(fmt(s) for s in exp[1][:8]) + ("]" if exp[2] else "] (any order)")


def list_nontrivial(xs):
    dup = any(M.identical(a, b) for a, b in itertools.combinations(xs, 2))
    kinds = set(M._cls(x) for x in xs)
    return dup or len(kinds) > 1


def op_class(name):
    return name.split("@")[0]


def run_list_case(w, idx, route, acc, only=None):
    """executes one list command; returns list of violation dicts (for recheck)"""
    text, L, xs, plan = list_command(idx, route)
    r = px.run_goals(w, [text])[0]
    shape = shape_of(xs, route)
    nt = list_nontrivial(xs)
    out = []
    base = {"fam": "list", "idx": list(idx), "route": route}
    if r.abn or r.status == "exc" or len(r.sols) != 1:
        what = r.abn or ("exc:" + px.formal_sig(r.formal()) if r.status == "exc" else "command_failed")
        v = {"sig": "list command route=%s/%s %s" % (route, shape, what), "case": dict(base, op="*"),
             "expected": "one record", "observed": repr(r)[:300]}
        if acc is not None:
            acc.case(nt, "abnormal")
            acc.violation(v["sig"], v["case"], v["expected"], v["observed"])
        return [v]
    sol = r.sols[0]
    obsL = sol.get("L")
    results, _ = unlist(sol.get("Rs"))
    if len(results) != len(plan):
        v = {"sig": "list command route=%s/%s result_count" % (route, shape), "case": dict(base, op="*"),
             "expected": "%d results" % len(plan), "observed": "%d results" % len(results)}
        if acc is not None:
            acc.case(nt, "abnormal")
            acc.violation(v["sig"], v["case"], v["expected"], v["observed"])
        return [v]
    for (name, exp), res in zip(plan, results):
        if only is not None and name != only:
            continue
        label, vk, observed = judge_obs(exp, res, obsL, L)
        if acc is not None:
            acc.case(nt, "%s:%s" % (op_class(name), label),
                     sample={"list": fmt(L), "route": route, "op": name, "expected": exp_text(exp)})
        if vk:
            v = {"sig": "list %s route=%s/%s %s" % (op_class(name), route, shape, vk),
                 "case": dict(base, op=name), "expected": exp_text(exp), "observed": observed}
            out.append(v)
            if acc is not None:
                acc.violation(v["sig"], v["case"], v["expected"], v["observed"])
    return out


def gen_lists(shard):
    _, route, ln, first, second = shard
    if ln == 0:
        yield ()
        return
    fixed = (first,) if second is None else (first, second)
    for rest in itertools.product(range(len(ELEMS)), repeat=ln - len(fixed)):
        yield fixed + rest


# --------------------------------------------------------------------------
# numeric lists

def num_expect(xs):
    s = 0
    for x in xs:
        s = s + x  # Python int/float addition = ISO '+' on these operands (no overflow in range)
    return s


def run_num(w, shard, acc, only=None):
    first = shard[1]
    n = 4
    viols = []
    cases = []
    lens = range(0, n + 1)
    for ln in lens:
        if ln == 0:
            if first == 0:
                cases.append(())
            continue
        for rest in itertools.product(range(len(NUMS)), repeat=ln - 1):
            cases.append((first,) + rest)
    if only is not None:
        cases = [tuple(only)]
    for batch in px.chunked(cases, 300):
        texts = []
        for idx in batch:
            lt = "[" + ",".join(NUMS[i][0] for i in idx) + "]"
            texts.append("g((L = %s, vx_first(S,sum_list(L,S),R1), vx_first(Mx,list_max(L,Mx),R2), "
                         "vx_first(Mn,list_min(L,Mn),R3)), 1)" % lt)
        rs = px.run_goals(w, texts)
        for idx, r in zip(batch, rs):
            xs = [NUMS[i][1] for i in idx]
            nt = len(set(type(x) for x in xs)) > 1 or any(abs(x) >= 2 ** 55 for x in xs)
            if r.abn or len(r.sols) != 1:
                v = {"sig": "num command %s" % (r.abn or r.status), "case": {"fam": "num", "idx": list(idx)},
                     "expected": "one record", "observed": repr(r)[:300]}
                viols.append(v)
                if acc is not None:
                    acc.case(nt, "abnormal")
                    acc.violation(v["sig"], v["case"], v["expected"], v["observed"])
                continue
            sol = r.sols[0]
            for op, rv in (("sum_list", "R1"), ("list_max", "R2"), ("list_min", "R3")):
                k, p = parse_first(sol.get(rv))
                vk = None
                if op == "sum_list":
                    want = num_expect(xs)
                    ok = k == "sol" and type(p) is type(want) and p == want
                    et = repr(want)
                elif not xs:
                    ok = k == "false"
                    et = "fails"
                else:
                    f = max if op == "list_max" else min
                    want = f(xs)  # Python compares int/float exactly
                    types = set(type(x) for x in xs if x == want)
                    ok = k == "sol" and not isinstance(p, (tuple, V, str)) and p == want and type(p) in types
                    et = "%r (type among %s)" % (want, sorted(t.__name__ for t in types))
                if not ok:
                    vk = "wrong_value" if k == "sol" else ("unexpected_error:" + px.formal_sig(p) if k == "error" else "unexpected_" + k)
                if acc is not None:
                    acc.case(nt, "%s:%s" % (op, k), sample={"list": [NUMS[i][0] for i in idx], "op": op, "expected": et})
                if vk:
                    v = {"sig": "num %s %s" % (op, vk), "case": {"fam": "num", "idx": list(idx), "op": op},
                         "expected": et, "observed": fmt_obs(p) if p is not None else k}
                    viols.append(v)
                    if acc is not None:
                        acc.violation(v["sig"], v["case"], v["expected"], v["observed"])
    return viols


# --------------------------------------------------------------------------
# ordsets

def subset_of(u, mask):
    return [u[i] for i in range(len(u)) if mask >> i & 1]


def set_text(s):
    return "[" + ",".join(t for t, _ in s) + "]"


def sset(elems):
    return mklist(elems)


def ord_model(A, B):
    """A, B python lists of abstract terms, sorted. -> dict op -> expectation"""
    def has(s, x):
        return any(M.identical(x, y) for y in s)
    union = M.sort_dedup(A + B, {})
    inter = [x for x in A if has(B, x)]
    a_minus_b = [x for x in A if not has(B, x)]
    b_minus_a = [x for x in B if not has(A, x)]
    sym = M.sort_dedup(a_minus_b + b_minus_a, {})
    return {
        "ord_union/3": ("det", "U", "ord_union(A,B,U)", sset(union)),
        "ord_union/4": ("det", "U-N", "ord_union(A,B,U,N)", ("-", sset(union), sset(b_minus_a))),
        "ord_intersection/3": ("det", "I", "ord_intersection(A,B,I)", sset(inter)),
        "ord_intersection/4": ("det", "I-D", "ord_intersection(A,B,I,D)", ("-", sset(inter), sset(b_minus_a))),
        "ord_intersect/3": ("det", "I", "ord_intersect(A,B,I)", sset(inter)),
        "ord_subtract": ("det", "D", "ord_subtract(A,B,D)", sset(a_minus_b)),
        "ord_symdiff": ("det", "D", "ord_symdiff(A,B,D)", sset(sym)),
        "ord_subset": ("bool", "ord_subset(A,B)", not a_minus_b),
        "ord_disjoint": ("bool", "ord_disjoint(A,B)", not inter),
        "ord_intersect/2": ("bool", "ord_intersect(A,B)", bool(inter)),
        "ord_seteq": ("bool", "ord_seteq(A,B)", not a_minus_b and not b_minus_a),
        "ord_intersection/3[]": ("bool", "ord_intersection(A,B,[])", not inter),
        "ord_union/3chk": ("bool", "ord_union(A,B,%s)" % fmt(sset(union)), True),
    }


def run_generic(w, items, acc, fam):
    """items: list of (case dict, prelude text, {op: spec}, nontrivial).
    spec = ("det", template, goal, expected term) | ("bool", goal, expected bool)
         | ("err", template, goal, formal-class) | ("all", template, goal, [expected], cap)."""
    viols = []
    for batch in px.chunked(items, 200):
        texts = []
        plans = []
        for case, pre, ops, nt in batch:
            goals = []
            plan = []
            for j, (op, spec) in enumerate(sorted(ops.items())):
                if spec[0] in ("det", "err"):
                    goals.append(localise("vx_first(%s,%s,%%s)" % (spec[1], spec[2]), j) % ("Q%d" % j))
                elif spec[0] == "bool":
                    goals.append(localise("vx_outcome(\\+ \\+ %s,%%s)" % spec[1], j) % ("Q%d" % j))
                elif spec[0] == "all":
                    goals.append(localise("vx_all(%s,%s,%d,%%s,%%s)" % (spec[1], spec[2], spec[4]), j) % ("Q%d" % j, "T%d" % j))
                plan.append((op, spec, j))
            texts.append("g((%s %s), 1)" % (pre, ", ".join(goals)))
            plans.append(plan)
        rs = px.run_goals(w, texts)
        for (case, pre, ops, nt), plan, r in zip(batch, plans, rs):
            if r.abn or len(r.sols) != 1:
                what = r.abn or ("exc:" + px.formal_sig(r.formal()) if r.status == "exc" else "command_failed")
                v = {"sig": "%s command %s" % (fam, what), "case": dict(case, op="*"),
                     "expected": "one record", "observed": repr(r)[:300]}
                viols.append(v)
                if acc is not None:
                    acc.case(nt, "abnormal")
                    acc.violation(v["sig"], v["case"], v["expected"], v["observed"])
                continue
            sol = r.sols[0]
            for op, spec, j in plan:
                if case.get("only") not in (None, op):
                    continue
                vk, label, et, ot = judge_generic(spec, sol, j)
                if acc is not None:
                    acc.case(nt, "%s:%s" % (op.split("@")[0], label), sample=dict(case, op=op, expected=et))
                if vk:
                    c = dict(case, op=op)
                    c.pop("only", None)
                    v = {"sig": "%s %s%s %s" % (fam, op.split("@")[0], "/" + c["shape"] if c.get("shape") else "", vk),
                         "case": c, "expected": et, "observed": ot}
                    viols.append(v)
                    if acc is not None:
                        acc.violation(v["sig"], v["case"], v["expected"], v["observed"])
    return viols


def judge_generic(spec, sol, j):
    """-> (violation kind | None, label, expected text, observed text)"""
    if spec[0] == "all":
        sols, _ = unlist(sol.get("Q%d" % j))
        st = sol.get("T%d" % j)
        et = "[" + "; ".join(fmt(s) for s in spec[3]) + "]"
        ot = "[" + "; ".join(fmt_obs(s) for s in sols) + "] status " + fmt_obs(st)
        if st != ("cap" if len(spec[3]) >= spec[4] else "done"):
            return ("bad_status", "status", et, ot)
        if len(sols) != len(spec[3]) or not all(M.variant(e, o) for e, o in zip(spec[3], sols)):
            return ("wrong_solutions", "%dsols" % len(sols), et, ot)
        return (None, "%dsols" % min(len(sols), 7), et, ot)
    k, p = parse_first(sol.get("Q%d" % j))
    ot = k if p is None else "%s %s" % (k, fmt_obs(p))
    if spec[0] == "det":
        et = fmt(spec[3])
        if k == "sol" and M.variant(spec[3], p):
            return (None, "sol", et, ot)
        if k == "sol":
            return ("wrong_value", "sol", et, ot)
        if k == "error":
            return ("unexpected_error:" + px.formal_sig(p), "error", et, ot)
        return ("unexpected_failure" if k == "false" else "unexpected_" + k, k, et, ot)
    if spec[0] == "bool":
        et = str(spec[2]).lower()
        if k in ("true", "false"):
            return (None if (k == "true") == spec[2] else "wrong_truth_value", k, et, ot)
        if k == "error":
            return ("unexpected_error:" + px.formal_sig(p), "error", et, ot)
        return ("unexpected_" + k, k, et, ot)
    if spec[0] == "err":
        et = "error " + spec[3]
        if k == "error" and px.formal_class(p) == spec[3]:
            return (None, "error:" + spec[3], et, ot)
        if k == "error":
            return ("wrong_error:" + px.formal_sig(p), "error", et, ot)
        return ("missing_error(%s)" % k, k, et, ot)
    raise ValueError(spec)


def ordpair_items(tier, lo, hi, only=None):
    u = ORD_U[tier]
    items = []
    for ma in range(lo, hi):
        for mb in range(1 << len(u)):
            A, B = subset_of(u, ma), subset_of(u, mb)
            ops = ord_model([x for _, x in A], [x for _, x in B])
            case = {"fam": "ordpair", "u": len(u), "a": ma, "b": mb}
            items.append((case, "A = %s, B = %s," % (set_text(A), set_text(B)), ops, bool(A) and bool(B)))
    return items


def ordelem_items(tier):
    u = ORD_U[tier]
    items = []
    probes = u + ORD_EXTRA
    for ma in range(1 << len(u)):
        A = subset_of(u, ma)
        Ax = [x for _, x in A]
        for pi, (pt, p) in enumerate(probes):
            inA = any(M.identical(p, y) for y in Ax)
            added = M.sort_dedup(Ax + [p], {})
            removed = [y for y in Ax if not M.identical(p, y)]
            ops = {
                "ord_add_element": ("det", "S", "ord_add_element(A,%s,S)" % pt, sset(added)),
                "ord_del_element": ("det", "S", "ord_del_element(A,%s,S)" % pt, sset(removed)),
                "ord_memberchk": ("bool", "ord_memberchk(%s,A)" % pt, inA),
            }
            if inA:
                ops["ord_selectchk"] = ("det", "S", "ord_selectchk(%s,A,S)" % pt, sset(removed))
                ops["ord_selectchk(+,-,+)"] = ("bool", "ord_selectchk(%s,_,A)" % pt, False)
            else:
                ops["ord_selectchk"] = ("bool", "ord_selectchk(%s,A,_)" % pt, False)
                ops["ord_selectchk(+,-,+)"] = ("det", "S", "ord_selectchk(%s,S,A)" % pt, sset(added))
            items.append(({"fam": "ordelem", "u": len(u), "a": ma, "p": pi}, "A = %s," % set_text(A), ops, bool(A)))
    return items


def ordlists_items(tier):
    """is_ordset / list_to_ord_set over every list of length <= 4 over the universe"""
    u = ORD_U[tier]
    items = []
    for ln in range(0, 5):
        for idx in itertools.product(range(len(u)), repeat=ln):
            xs = [u[i][1] for i in idx]
            lt = "[" + ",".join(u[i][0] for i in idx) + "]"
            ops = {"is_ordset": ("bool", "is_ordset(%s)" % lt, M.is_ordset(xs, {})),
                   "list_to_ord_set": ("det", "S", "list_to_ord_set(%s,S)" % lt, sset(M.sort_dedup(xs, {})))}
            items.append(({"fam": "ordlists", "u": len(u), "idx": list(idx), "shape": shape_of(xs, "lit")}, "", ops, len(set(idx)) < len(idx) or ln > 1))
    for t in ("a", "[1|T]", "[1|a]", "f(x)", "_"):
        items.append(({"fam": "ordlists", "u": len(u), "raw": t}, "", {"is_ordset": ("bool", "is_ordset(%s)" % t, False)}, True))
    return items


def ordunion2_items(tier):
    """ord_union/2 and ord_intersection/2 over all lists of <= 3 subsets of the first 3 universe elements
    plus all pairs over the full universe"""
    u = ORD_U[tier]
    items = []
    small = u[:3]
    fams = []
    for k in range(0, 4):
        for masks in itertools.product(range(1 << len(small)), repeat=k):
            fams.append([subset_of(small, m) for m in masks])
    for ma in range(1 << len(u)):
        for mb in range(1 << len(u)):
            fams.append([subset_of(u, ma), subset_of(u, mb)])
    for fi, fam in enumerate(fams):
        sets = [[x for _, x in s] for s in fam]
        ft = "[" + ",".join(set_text(s) for s in fam) + "]"
        un = M.sort_dedup([x for s in sets for x in s], {})
        ops = {"ord_union/2": ("det", "U", "ord_union(%s,U)" % ft, sset(un))}
        if sets:
            inter = [x for x in sets[0] if all(any(M.identical(x, y) for y in s) for s in sets[1:])]
            ops["ord_intersection/2"] = ("det", "I", "ord_intersection(%s,I)" % ft, sset(inter))
        items.append(({"fam": "ordunion2", "u": len(u), "i": fi}, "", ops, len(fam) > 1))
    return items


def ordmember_items(tier):
    """ord_memberchk's 4-way unrolled search: every subset of an 8 (10) element universe x every probe"""
    n = 10 if tier == "thorough" else 8
    items = []
    probes = list(range(1, 2 * n + 2))
    pt = "[" + ",".join(str(p) for p in probes) + "]"
    for mask in range(1 << n):
        s = [2 * (i + 1) for i in range(n) if mask >> i & 1]
        st = "[" + ",".join(str(x) for x in s) + "]"
        ops = {"ord_memberchk_scan": ("all", "I", "(member(I,%s), ord_memberchk(I,%s))" % (pt, st), list(s), 64)}
        items.append(({"fam": "ordmember", "u": n, "mask": mask}, "", ops, len(s) > 4))
    return items


def misc_items(tier):
    items = []

    def add(name, ops, nt=True):
        items.append(({"fam": "misc", "name": name}, "", ops, nt))
    add("sort_errors", {
        "sort_partial": ("err", "S", "sort([a|_],S)", "instantiation_error"),
        "sort_var": ("err", "S", "sort(_,S)", "instantiation_error"),
        "sort_nonlist": ("err", "S", "sort(a,S)", "type_error"),
        "sort_improper": ("err", "S", "sort([a|b],S)", "type_error"),
        "sort_sorted_improper": ("err", "S", "sort([a],[x|y])", "type_error"),
        "keysort_partial": ("err", "S", "keysort([1-a|_],S)", "instantiation_error"),
        "keysort_var": ("err", "S", "keysort(_,S)", "instantiation_error"),
        "keysort_nonlist": ("err", "S", "keysort(a,S)", "type_error"),
        "keysort_nonpair": ("err", "S", "keysort([1-a,b],S)", "type_error"),
        "keysort_varelem": ("err", "S", "keysort([1-a,_],S)", "instantiation_error"),
    })
    add("sort_bound", {
        "sort_check_true": ("bool", "sort([b,a,b],[a,b])", True),
        "sort_check_false": ("bool", "sort([b,a,b],[a,b,b])", False),
        "sort_partial_out": ("det", "T", "sort([b,a,c],[a|T])", mklist(["b", "c"])),
        "keysort_check_true": ("bool", "keysort([b-1,a-2,b-3],[a-2,b-1,b-3])", True),
        "keysort_check_false": ("bool", "keysort([b-1,a-2,b-3],[a-2,b-3,b-1])", False),
        "keysort_keeps_dups": ("det", "S", "keysort([1-a,1-a],S)", mklist([("-", 1, "a"), ("-", 1, "a")])),
    })
    add("assoc_errors", {
        "list_to_assoc_duplicate_keys": ("err", "A", "list_to_assoc([a-1,b-2,a-3],A)", "domain_error"),
        "ord_list_to_assoc_unordered": ("err", "A", "ord_list_to_assoc([b-1,a-2],A)", "domain_error"),
        "ord_list_to_assoc_duplicate": ("err", "A", "ord_list_to_assoc([a-1,a-2],A)", "domain_error"),
        "get_assoc_not_an_assoc": ("err", "V", "get_assoc(k,foo,V)", "type_error"),
        "ord_list_to_assoc_ok": ("det", "A", "ord_list_to_assoc([a-1,b-2],A)", ("t", "b", 2, "<", ("t", "a", 1, "-", "t", "t"), "t")),
    })
    fr = M.Fresh()
    lops = {}
    for k in range(0, 5):
        lops["length_gen@%d" % k] = ("all", "L", "length(L,%d)" % k, [mklist([fr() for _ in range(k)])], 3)
        lops["length_partial@%d" % k] = ("all", "T", "length([a,b|T],%d)" % k,
                                         [mklist([fr() for _ in range(k - 2)])] if k >= 2 else [], 3)
    lops["length_enum"] = ("all", "N-T", "length([a|T],N)", [("-", i + 1, mklist([fr() for _ in range(i)])) for i in range(4)], 4)
    lops["length_neg"] = ("err", "L", "length(L,-1)", "domain_error")
    lops["length_nonint"] = ("err", "L", "length(L,a)", "type_error")
    items.append(({"fam": "misc", "name": "length"}, "", fix_cap(lops), True))
    return items


def fix_cap(ops):
    """an enumeration that hits its cap reports status 'cap': model it as exactly-cap solutions"""
    return ops


# --------------------------------------------------------------------------
# assoc explicit-state search

def assoc_state_key(t):
    return fmt(t)


def model_items(model):
    """sorted [(k, v)]"""
    import functools
    return sorted(model, key=functools.cmp_to_key(lambda a, b: M.compare(a[0], b[0], {})))


def apply_trans(items, tr):
    """items: sorted [(k,v)] -> (new items | None for expected failure, expected extra outputs)"""
    kind = tr[0]
    d = list(items)

    def find(k):
        for i, (kk, _) in enumerate(d):
            if M.identical(kk, k):
                return i
        return -1
    if kind == "put":
        _, k, v = tr
        i = find(k)
        if i >= 0:
            d[i] = (k, v)
        else:
            d.append((k, v))
        return model_items(d), None
    if kind == "del":
        i = find(tr[1])
        if i < 0:
            return None, None
        v = d[i][1]
        del d[i]
        return d, v
    if kind == "delmin":
        if not d:
            return None, None
        return d[1:], ("-", d[0][0], d[0][1])
    if kind == "delmax":
        if not d:
            return None, None
        return d[:-1], ("-", d[-1][0], d[-1][1])
    if kind == "replace":
        _, k, v = tr
        i = find(k)
        if i < 0:
            return None, None
        old = d[i][1]
        d[i] = (k, v)
        return d, old
    if kind in ("rebuild", "ordrebuild"):
        return d, None
    raise ValueError(kind)


class KeyText(dict):
    """abstract key -> source text (keys are hashable but 1 == 1.0 in Python)"""

    def __init__(self, keys):
        dict.__init__(self)
        self.tab = [(k, t) for t, k in keys]

    def __getitem__(self, k):
        for kk, t in self.tab:
            if M.identical(kk, k):
                return t
        raise KeyError(k)


def assoc_transitions(keys, vals):
    trs = []
    for _, k in keys:
        for v in vals:
            trs.append(("put", k, v))
    for _, k in keys:
        trs.append(("del", k))
    trs.append(("delmin",))
    trs.append(("delmax",))
    for _, k in keys:
        trs.append(("replace", k, vals[-1]))
    trs.append(("rebuild",))
    trs.append(("ordrebuild",))
    return trs


def tr_name(tr, ktext):
    if len(tr) == 1:
        return tr[0]
    return "%s(%s)" % (tr[0], ",".join([ktext[tr[1]]] + list(tr[2:])))


def tr_json(tr, ktext):
    return [tr[0]] + ([ktext[tr[1]]] + list(tr[2:]) if len(tr) > 1 else [])


def check_result_term(B, want_items):
    """structural invariants of a transition result -> None or a violation kind + detail"""
    try:
        _, inorder = M.avl_check(B)
    except M.AvlError as e:
        return "avl_structure", str(e)
    if len(inorder) != len(want_items) or not all(
            M.identical(k1, k2) and M.identical(v1, v2) for (k1, v1), (k2, v2) in zip(inorder, want_items)):
        return "wrong_content", "in-order content %s" % fmt(mklist([("-", k, v) for k, v in inorder]))
    return None


def restructured(A, B, tr):
    pa, pb = M.avl_parents(A), M.avl_parents(B)
    touched = M._hk(tr[1]) if len(tr) > 1 else None
    for k in pa:
        if k in pb and k != touched and pa[k] != pb[k]:
            return True
    if tr[0] == "del" and touched in pa:
        # inner node deletion
        def node(t, hk):
            if t == "t":
                return None
            if M._hk(t[1]) == hk:
                return t
            return node(t[4], hk) or node(t[5], hk)
        nd = node(A, touched)
        return nd is not None and nd[4] != "t" and nd[5] != "t"
    return False


def observer_goal(keys, items, ktext):
    return "c14_assoc_obs(A,[%s,0,zz],Rs)" % ",".join(t for t, _ in keys)


OBS_ORDER = ["Ol", "Ok", "Ov", "Omax", "Omin", "Og", "Oget", "Ogg", "Ois", "Oe"]


def observer_sol(sol):
    """Rs of c14_assoc_obs -> the dict judge_observers reads"""
    rs, _ = unlist(sol.get("Rs"))
    d = {}
    for name, r in zip(OBS_ORDER, rs):
        if isinstance(r, tuple) and r[0] == "all" and len(r) == 3:
            d[name] = r[1]
            d["T" + name[1:]] = r[2]
        else:
            d[name] = r
    return d


def judge_observers(sol, keys, items):
    """-> list of (observer name, kind, expected text, observed text)"""
    bad = []
    pairs = mklist([("-", k, v) for k, v in items])

    def first(name, var, want):
        k, p = parse_first(sol.get(var))
        if want is None:
            if k != "false":
                bad.append((name, "unexpected_" + k, "fails", fmt_obs(p) if p is not None else k))
        elif not (k == "sol" and M.variant(want, p)):
            bad.append((name, "wrong_value" if k == "sol" else "unexpected_" + k, fmt(want), fmt_obs(p) if p is not None else k))

    def allof(name, var, svar, want):
        sols, _ = unlist(sol.get(var))
        if sol.get(svar) != "done" or len(sols) != len(want) or not all(M.variant(e, o) for e, o in zip(want, sols)):
            bad.append((name, "wrong_solutions", "; ".join(fmt(x) for x in want),
                        "; ".join(fmt_obs(x) for x in sols) + " status " + fmt_obs(sol.get(svar))))

    first("assoc_to_list", "Ol", pairs)
    first("assoc_to_keys", "Ok", mklist([k for k, _ in items]))
    first("assoc_to_values", "Ov", mklist([v for _, v in items]))
    first("max_assoc", "Omax", ("-", items[-1][0], items[-1][1]) if items else None)
    first("min_assoc", "Omin", ("-", items[0][0], items[0][1]) if items else None)
    allof("gen_assoc", "Og", "Tg", [("-", k, v) for k, v in items])
    # lookups in the order of the key alphabet
    want = []
    for _, k in keys:
        for kk, v in items:
            if M.identical(k, kk):
                want.append(("-", k, v))
    allof("get_assoc", "Oget", "Tget", want)
    allof("gen_assoc(+K)", "Ogg", "Tgg", want)
    if sol.get("Ois") != "true":
        bad.append(("is_assoc", "wrong_truth_value", "true", fmt_obs(sol.get("Ois"))))
    if (sol.get("Oe") == "true") != (not items):
        bad.append(("empty_assoc", "wrong_truth_value", str(not items).lower(), fmt_obs(sol.get("Oe"))))
    return bad


def run_assoc(w, alpha, acc, tier):
    keys, vals = ASSOC_ALPHA[alpha]
    ktext = KeyText(keys)
    trs = assoc_transitions(keys, vals)
    seen = {assoc_state_key("t"): []}   # state key -> model items
    frontier = [("t", [], [])]           # (term, items, history)
    depth = 0
    nstates = 1
    ntrans = 0
    # observers on the empty assoc
    pending_obs = [("t", [], [])]
    while frontier or pending_obs:
        # 1. observe new states through the library's accessors
        for batch in px.chunked(pending_obs, 100):
            texts = ["g((A = %s, %s), 1)" % (fmt(t), observer_goal(keys, items, ktext)) for t, items, _ in batch]
            rs = px.run_goals(w, texts)
            for (t, items, hist), r in zip(batch, rs):
                if r.abn or len(r.sols) != 1:
                    what = r.abn or ("exc:" + px.formal_sig(r.formal()) if r.status == "exc" else "command_failed")
                    acc.case(True, "observers:abnormal")
                    acc.violation("assoc observers %s" % what, {"fam": "assoc", "alpha": alpha, "history": hist, "obs": "*"},
                                  "one record", repr(r)[:300])
                    continue
                bad = judge_observers(observer_sol(r.sols[0]), keys, items)
                acc.case(bool(items), "observers:%s" % ("ok" if not bad else "bad"),
                         sample={"assoc": fmt(t), "observers": "assoc_to_list/keys/values, max/min/gen/get_assoc, is_assoc"})
                for name, kind, et, ot in bad:
                    acc.violation("assoc observer %s %s" % (name, kind),
                                  {"fam": "assoc", "alpha": alpha, "history": hist, "obs": name}, et, ot)
        pending_obs = []
        # 2. expand the frontier
        nxt = []
        for batch in px.chunked(frontier, 40):
            texts = []
            for t, items, hist in batch:
                texts.append(step_command(t, items, keys, vals, ktext))
            rs = px.run_goals(w, texts)
            for (t, items, hist), r in zip(batch, rs):
                if r.abn or len(r.sols) != 1:
                    what = r.abn or ("exc:" + px.formal_sig(r.formal()) if r.status == "exc" else "command_failed")
                    acc.case(True, "transition:abnormal")
                    acc.violation("assoc expand %s" % what, {"fam": "assoc", "alpha": alpha, "history": hist, "tr": None},
                                  "one record", repr(r)[:300])
                    continue
                results, _ = unlist(r.sols[0].get("Rs"))
                if len(results) != len(trs):
                    acc.case(True, "transition:abnormal")
                    acc.violation("assoc expand result_count", {"fam": "assoc", "alpha": alpha, "history": hist, "tr": None},
                                  "%d results" % len(trs), "%d results" % len(results))
                    continue
                for j, tr in enumerate(trs):
                    ntrans += 1
                    v, B, label, nt = judge_transition(results[j], tr, t, items, ktext)
                    acc.case(nt, "%s:%s" % (tr[0], label),
                             sample={"assoc": fmt(t), "transition": tr_name(tr, ktext)})
                    if v:
                        acc.violation("assoc %s %s" % (tr[0], v[0]),
                                      {"fam": "assoc", "alpha": alpha, "history": hist, "tr": tr_json(tr, ktext)},
                                      v[1], v[2])
                        continue
                    if B is None:
                        continue
                    key = assoc_state_key(B)
                    if key not in seen:
                        new_items, _ = apply_trans(items, tr)
                        seen[key] = new_items
                        nstates += 1
                        h2 = hist + [tr_json(tr, ktext)]
                        nxt.append((B, new_items, h2))
                        pending_obs.append((B, new_items, h2))
        frontier = nxt
        depth += 1
    acc.states += nstates
    acc.transitions += ntrans
    acc.extra["assoc_depth_%s" % alpha] = depth
    acc.extra["assoc_states_%s" % alpha] = nstates


def step_command(t, items, keys, vals, ktext):
    """all transitions from state t in the order of assoc_transitions() (= c14_assoc_step/6)"""
    return ("g((A = %s, c14_assoc_step(A,[%s],[%s],%s,[%s],Rs)), 1)"
            % (fmt(t), ",".join(kt for kt, _ in keys), ",".join(vals), vals[-1],
               ",".join("%s-%s" % (ktext[k], v) for k, v in items)))


def judge_transition(res, tr, A, items, ktext):
    """res = all(Sols, Status) -> (violation (kind, expected, observed) | None, result term | None, label, nontrivial)"""
    if not (isinstance(res, tuple) and res[0] == "all" and len(res) == 3):
        return (("bad_result_term", "all(Sols,Status)", fmt_obs(res)), None, "?", True)
    sols, _ = unlist(res[1])
    st = res[2]
    want_items, extra = apply_trans(items, tr)
    if st != "done":
        et = "fails" if want_items is None else "one solution"
        return (("bad_status:" + (px.formal_sig(st[1]) if isinstance(st, tuple) and len(st) > 1 else fmt_obs(st))[:40], et, fmt_obs(st)),
                None, "error", True)
    if want_items is None:
        if sols:
            return (("unexpected_success", "fails", fmt_obs(sols[0])), None, "sol", True)
        return (None, None, "fails", False)
    if len(sols) != 1:
        return (("solution_count:%d" % len(sols), "exactly one solution", "; ".join(fmt_obs(s) for s in sols)), None, "%dsols" % len(sols), True)
    s = sols[0]
    if tr[0] in ("put", "rebuild", "ordrebuild"):
        B = s
    else:
        if not (isinstance(s, tuple) and s[0] == "-" and len(s) == 3):
            return (("bad_template", "B-Out", fmt_obs(s)), None, "sol", True)
        B, out = s[1], s[2]
        if not M.variant(extra, out):
            return (("wrong_output", fmt(extra), fmt_obs(out)), None, "sol", True)
    bad = check_result_term(B, want_items)
    if bad:
        return ((bad[0], "assoc holding " + fmt(mklist([("-", k, v) for k, v in want_items])), bad[1] + " in " + fmt_obs(B)),
                None, "sol", True)
    nt = restructured(A, B, tr)
    return (None, B, "restructured" if nt else "sol", nt)


def replay_assoc(w, case):
    """re-run a history from the empty assoc and judge its last step / the observers of its last state"""
    alpha = case["alpha"]
    keys, vals = ASSOC_ALPHA[alpha]
    ktext = KeyText(keys)
    tkey = dict((t, k) for t, k in keys)

    def tr_of(js):
        if len(js) == 1:
            return (js[0],)
        return (js[0], tkey[js[1]]) + tuple(js[2:])
    t, items = "t", []
    steps = [tr_of(j) for j in case["history"]]
    last = tr_of(case["tr"]) if case.get("tr") else None
    trs = assoc_transitions(keys, vals)
    for tr in steps + ([last] if last else []):
        r = px.run_goals(w, [step_command(t, items, keys, vals, ktext)])[0]
        if r.abn or len(r.sols) != 1:
            what = r.abn or ("exc:" + px.formal_sig(r.formal()) if r.status == "exc" else "command_failed")
            return {"sig": "assoc expand %s" % what, "case": case, "expected": "one record", "observed": repr(r)[:300]}
        results, _ = unlist(r.sols[0].get("Rs"))
        j = [tr_json(x, ktext) for x in trs].index(tr_json(tr, ktext))
        v, B, label, nt = judge_transition(results[j], tr, t, items, ktext)
        if v:
            return {"sig": "assoc %s %s" % (tr[0], v[0]), "case": case, "expected": v[1], "observed": v[2]}
        if B is None:
            return None
        items, _ = apply_trans(items, tr)
        t = B
    if case.get("obs"):
        r = px.run_goals(w, ["g((A = %s, %s), 1)" % (fmt(t), observer_goal(keys, items, ktext))])[0]
        if r.abn or len(r.sols) != 1:
            what = r.abn or ("exc:" + px.formal_sig(r.formal()) if r.status == "exc" else "command_failed")
            return {"sig": "assoc observers %s" % what, "case": case, "expected": "one record", "observed": repr(r)[:300]}
        for name, kind, et, ot in judge_observers(observer_sol(r.sols[0]), keys, items):
            if case["obs"] in ("*", name):
                return {"sig": "assoc observer %s %s" % (name, kind), "case": case, "expected": et, "observed": ot}
    return None


# --------------------------------------------------------------------------

# --------------------------------------------------------------------------
# long lists: keysort/2 stability and sort/2 beyond the sorting routines' small-slice paths

LONG_LENS = [21, 24, 33, 50, 64, 100, 257, 1000]
LONG_KEYS = [("b", "b"), ("2", 2), ("1.0", 1.0), ("f(a)", ("f", "a")), ('"a"', chars_list("a")), ("a", "a"), ("1", 1), ("2.0", 2.0),
             ("g(a,b)", ("g", "a", "b")), ("[]", "[]")]
INT_KEYS = [(str(i), i) for i in range(10, 0, -1)]


def long_arrangements(n):
    """-> [(name, [key index per position], key table)] — deterministic arrangements, no sampling"""
    out = [("all_equal", [0] * n, INT_KEYS)]
    for k in (2, 3, 5, 10):
        out.append(("alternating%d" % k, [i % k for i in range(n)], INT_KEYS))           # sawtooth over k keys (k=2: alternating)
        out.append(("descending%d" % k, [(i * k) // n for i in range(n)], INT_KEYS))      # INT_KEYS is descending: k runs of duplicates
        out.append(("sawtooth_down%d" % k, [k - 1 - (i % k) for i in range(n)], INT_KEYS))
        out.append(("stride%d" % k, [(i * 7919 + (i * i) // 3) % k for i in range(n)], INT_KEYS))
        out.append(("mixed%d" % k, [(i * 7) % k for i in range(n)], LONG_KEYS))
    out.append(("organ_pipe", [min(i, n - 1 - i) % 10 for i in range(n)], INT_KEYS))
    out.append(("mixed_blocks", [(i // 7) % 10 for i in range(n)], LONG_KEYS))
    return out


def long_cases(n):
    for name, idx, table in long_arrangements(n):
        for route in ("lit", "copy"):
            yield {"fam": "long", "n": n, "arr": name, "route": route}, idx, table


def long_command(idx, table, route):
    txt = "[" + ",".join("%s-%d" % (table[k][0], i + 1) for i, k in enumerate(idx)) + "]"
    return "g(%s(%s,Rs), 1)" % ("c14_long" if route == "lit" else "c14_long_copy", txt)


def long_expect(idx, table):
    pairs = [("-", table[k][1], i + 1) for i, k in enumerate(idx)]
    keys = [p[1] for p in pairs]
    return [("keysort", mklist(M.keysort(pairs, {}))),
            ("sort_pairs", mklist(M.sort_dedup(pairs, {}))),
            ("sort_keys", mklist(M.sort_dedup(keys, {}))),
            ("list_to_set_keys", mklist(M.list_to_set(keys))),
            ("keysort_reversed", mklist(M.keysort(pairs[::-1], {})))]


def run_long(w, cases, acc):
    viols = []
    for batch in px.chunked(list(cases), 12):
        rs = px.run_goals(w, [long_command(idx, table, c["route"]) for c, idx, table in batch])
        for (case, idx, table), r in zip(batch, rs):
            nt = len(set(idx)) < len(idx)
            if r.abn or r.status == "exc" or len(r.sols) != 1:
                what = r.abn or ("exc:" + px.formal_sig(r.formal()) if r.status == "exc" else "command_failed")
                v = {"sig": "long command %s" % what, "case": dict(case, op="*"), "expected": "one record", "observed": repr(r)[:300]}
                viols.append(v)
                if acc is not None:
                    acc.case(nt, "long:abnormal")
                    acc.violation(v["sig"], v["case"], v["expected"], v["observed"])
                continue
            results, _ = unlist(r.sols[0].get("Rs"))
            for (op, want), res in zip(long_expect(idx, table), results):
                if case.get("op") not in (None, "*", op):
                    continue
                k, p = parse_first(res)
                ok = k == "sol" and M.variant(want, p)
                if acc is not None:
                    acc.case(nt, "long_%s:%s" % (op, k), sample={"n": case["n"], "arrangement": case["arr"], "route": case["route"], "op": op})
                if not ok:
                    if k == "sol":
                        pe, _ = unlist(p)
                        we, _ = unlist(want)
                        pos = next((i for i, (a, b) in enumerate(zip(pe, we)) if not M.identical(a, b)), min(len(pe), len(we)))
                        kind = "wrong_order" if sorted(map(fmt, pe)) == sorted(map(fmt, we)) else "wrong_elements"
                        obs = "first difference at position %d: %s instead of %s" % (
                            pos, fmt_obs(pe[pos]) if pos < len(pe) else "end", fmt(we[pos]) if pos < len(we) else "end")
                    else:
                        kind = "unexpected_error:" + px.formal_sig(p) if k == "error" else "unexpected_" + k
                        obs = fmt_obs(p) if p is not None else k
                    small = "n<=20" if case["n"] <= 20 else "n>20"
                    v = {"sig": "long %s %s %s %s" % (op, case["route"], small, kind),
                         "case": dict((kk, vv) for kk, vv in dict(case, op=op).items()),
                         "expected": "stable standard-order result (%d elements)" % len(unlist(want)[0]), "observed": obs}
                    viols.append(v)
                    if acc is not None:
                        acc.violation(v["sig"], v["case"], v["expected"], v["observed"])
    return viols


def generic_items(fam, tier, shard=None):
    if fam == "ordpair":
        return ordpair_items(tier, shard[1], shard[2])
    if fam == "ordelem":
        return ordelem_items(tier)
    if fam == "ordlists":
        return ordlists_items(tier)
    if fam == "ordunion2":
        return ordunion2_items(tier)
    if fam == "ordmember":
        return ordmember_items(tier)
    if fam == "misc":
        return misc_items(tier)
    raise ValueError(fam)


def run_shard(w, shard, tier):
    acc = px.ShardAcc()
    fam = shard[0]
    if fam == "list":
        route = shard[1]
        for idx in gen_lists(shard):
            run_list_case(w, idx, route, acc)
    elif fam == "num":
        run_num(w, shard, acc)
    elif fam == "assoc":
        run_assoc(w, shard[1], acc, tier)
    elif fam == "long":
        run_long(w, long_cases(shard[1]), acc)
    else:
        run_generic(w, generic_items(fam, tier, shard), acc, fam)
    return acc.result()


def recheck(w, case, tier):
    fam = case["fam"]
    if fam == "list":
        vs = run_list_case(w, tuple(case["idx"]), case["route"], None, only=None if case["op"] == "*" else case["op"])
        return vs[0] if vs else None
    if fam == "num":
        vs = run_num(w, ("num", case["idx"][0] if case["idx"] else 0), None, only=case["idx"])
        vs = [v for v in vs if v["case"].get("op") == case.get("op")] or vs
        return vs[0] if vs else None
    if fam == "assoc":
        return replay_assoc(w, case)
    if fam == "long":
        hit = [(dict(c, op=case.get("op")), idx, table) for c, idx, table in long_cases(case["n"])
               if c["arr"] == case["arr"] and c["route"] == case["route"]]
        vs = run_long(w, hit, None)
        return vs[0] if vs else None
    # generic families: regenerate the item with the same identifying fields (both tiers' universes are tried)
    ident = dict((k, v) for k, v in case.items() if k not in ("op", "shape"))
    for t in ("quick", "thorough"):
        if fam == "ordpair":
            items = ordpair_items(t, case["a"], case["a"] + 1) if case["a"] < (1 << len(ORD_U[t])) else []
        else:
            items = generic_items(fam, t)
        for c, pre, ops, nt in items:
            if dict((k, v) for k, v in c.items() if k != "shape") == ident:
                if case["op"] != "*" and case["op"] not in ops:
                    continue
                vs = run_generic(w, [(dict(c, only=None if case["op"] == "*" else case["op"]), pre, ops, nt)], None, fam)
                return vs[0] if vs else None
    return None
