"""C13 — compare/3 implements the standard order of terms (DESIGN §6 C13).

Families (all exhaustive over what they enumerate):
  pairs   ordered pairs of TERM(k1) x TERM(k2) shapes, every joint variable
          sharing pattern, every pair of applicable representation routes
  pstr    string-vs-string / string-vs-list pairs whose first difference falls
          at every offset 0..9 (compare_pstr_slices: cell boundary, 7-byte
          re-validation window, unaligned slice starts via the sfxK routes)
  atoms   code-point order of atoms (bare, as argument, as functor name),
          literal vs run-time created
  nums    numbers of every class and encoding (fixnum / bignum-held / rational
          / float), class order Float < Integer/Rational
  spine   a 40-term spine: full comparison matrix in one goal (so variable
          addresses are fixed), antisymmetry + transitivity on all triples
Oracle: vx.model.stdorder; axioms between compare/3 (both argument orders, all
modes), the six order predicates and ==/\\==.
"""
import os
from fractions import Fraction

from vx.core import px
from vx.core.terms import V, NIL, mklist, unlist, quote_atom, quote_string
from vx.model import termspace as T
from vx.model import stdorder as SO

ID = "C13"
LEVEL = "exploration"
ENGINE = "PEX"
TECHNIQUE = "bounded exhaustive enumeration of term pairs x representation routes against a reference standard order"
LEVEL_TEXT = ("input-space exploration: every ordered pair of a size-bounded term alphabet in every pair of heap "
              "encodings, plus boundary families for partial-string comparison; the order is a pure function of the "
              "two terms, so exhaustive small-scope enumeration is the matching technique")
RULE = ("all ordered pairs of TERM(k1)xTERM(k2) shapes with all joint sharing patterns x all pairs of applicable "
        "routes (lit, dq, univ, func, chars, copy, sfxK); string mismatch family (prefix length 0..9 x 3 prefix kinds x "
        "12 differing char pairs x suffix x tails x 8x8 routes); atom and number alphabets (all ordered pairs x "
        "encodings); 40-term spine matrices (all triples). Non-trivial: the two sides differ in route, or mix "
        "string and list encodings, or are numbers of different classes/encodings.")
ASSUMPTIONS = ["stdorder.py encodes the order stated in the property (Var < Float < Int/Rat < Atom < Compound)",
               "the relative order of two distinct variables is implementation defined (either accepted, '=' never)",
               "driver transport of atoms and small lists"]
MIN_OUTCOMES = 3

HELPERS = open(os.path.join(os.path.dirname(__file__), "..", "prolog", "c13_helpers.pl"), encoding="utf-8").read()


def setup(w, tier):
    w.consult(HELPERS, persist=True)


def bound_text(tier):
    if tier == "quick":
        return ("pairs TERM(2)xTERM(2) all routes + TERM(2)xTERM(3) both orders routes {lit,univ,chars}; pstr family "
                "6x6 routes, tails {[],X}; atoms; nums; 6 spine variants")
    return ("pairs TERM(3)xTERM(3) routes {lit,univ,chars} + TERM(2)xTERM(2) all 9 routes (lit,dq,univ,func,chars,copy,fa,asrt,sfx1); pstr family tails "
            "{[],X,[1]}; atoms; nums; 12 spine variants")


# ---------------------------------------------------------------------------
# alphabets

R_FULL = ["lit", "dq", "univ", "func", "chars", "copy", "fa", "asrt", "sfx1"]
R_Q22 = ["lit", "dq", "univ", "chars", "copy", "sfx1"]
R_Q23 = ["lit", "univ", "chars"]
R_T33 = ["lit", "univ", "chars"]
R_PSTR = ["dq", "univ", "chars", "seg", "sfx1", "sfx3", "sfx8", "copy"]
R_PSTR_Q = ["dq", "univ", "chars", "seg", "sfx1", "sfx3"]

UNALIGNED = ("seg", "sfx1", "sfx3")    # routes that make compare_pstr_slices start inside a cell
MISMATCH = [("a", "b"), ("a", "é"), ("é", "è"), ("é", "z"), ("€", "₭"), ("😀", "😁"),
            # a 4-byte character against a shorter one, and two 4-byte characters that differ in
            # their FIRST byte (the decoding window must reach 4 bytes past the mismatch)
            ("a", "😀"), ("é", "😀"), ("€", "😀"), ("😀", "\U0010FFFF")]

ATOM_FAM = ["", "a", "ab", "b", "B", "\u00e9", "e\u0301", "\u20ac", "\U0010FFFF", "a\u00e9", "z", "[]", "{}", "a\x00",
            "a\x00b", "\ufffd", "\U00010000", "abcdef", "abcdefg", "abcdefgh", "abcde\u00e9", "abcd\u00e9"]

FIX_MAX = 2 ** 55 - 1
FIX_MIN = -(2 ** 55)
NUM_INT = [0, 1, -1, 2, 3, 4, FIX_MAX, FIX_MAX + 1, FIX_MIN, FIX_MIN - 1, 2 ** 63, -(2 ** 63), 2 ** 64, 2 ** 70,
           -(2 ** 70), 10 ** 20]
NUM_RAT = [Fraction(1, 2), Fraction(-1, 2), Fraction(1, 3), Fraction(3, 2), Fraction(7, 2), Fraction(-7, 2),
           Fraction(2 ** 70 + 1, 2), Fraction(1, 2 ** 70), Fraction(10 ** 20, 3)]
NUM_FLT = [0.0, -0.0, 0.5, 1.0, -1.0, 1.5, 3.5, float(2 ** 55), 1e20, 1e22, float(2 ** 70), -float(2 ** 70), 1e300,
           -1e300, 5e-324]


def num_alphabet():
    out = []
    for n in NUM_INT:
        out.append((n, "lit"))
        out.append((n, "arith"))
    for r in NUM_RAT:
        out.append((r, "lit"))
        out.append((r, "arith"))
    for f in NUM_FLT:
        out.append((f, "lit"))
        out.append((f, "arith"))
    return out


def pstr_prefixes():
    out = []
    for n in range(0, 10):
        out.append("a" * n)
        if n >= 1:
            out.append("é" + "a" * (n - 1))
            out.append("a" * (n - 1) + "é")
    seen = []
    for p in out:
        if p not in seen:
            seen.append(p)
    return seen


def tail_term(name):
    return {"nil": NIL, "X": V("X"), "one": 1, "l1": mklist([1])}[name]


def spine_terms():
    """40 terms of every class (abstract)"""
    X, Y = V("X"), V("Y")
    s = T.str_term
    return [
        X, Y, 1.0, -1.0, 1e22, float(2 ** 70), 0, 1, -1, Fraction(1, 2), Fraction(7, 2), 3, 4, FIX_MAX + 1, 2 ** 70,
        "", "a", "ab", "b", "B", "é", "z", "[]", "€",
        ("f", X), ("f", Y), ("f", "a"), ("g", "a"), ("{}", "a"), ("f", 1.0), ("f", 1),
        s("a"), s("ab"), s("b"), s("é"), s("a", X), mklist(["a", 1]), mklist([1, "a"]),
        ("g", "a", "b"), ("f", s("ab")),
    ]


SPINE_Q = ["lit", "dq", "univ", "chars", "mix0", "mix1"]
SPINE_T = SPINE_Q + ["copy", "sfx1", "sfx3", "func", "mix2", "mix3"]
MIX = ["lit", "univ", "chars", "dq", "sfx1"]


# ---------------------------------------------------------------------------
# shards

def shards(tier):
    sh = []
    if tier == "quick":
        n2 = len(T.shapes(2))
        n3 = len(T.shapes(3))
        for i in range(0, n2, 13):
            sh.append(("pairs", 2, 2, "Q22", i, min(n2, i + 13), 0))
        for i in range(0, n3, 18):
            sh.append(("pairs", 3, 2, "Q23", i, min(n3, i + 18), 1))   # both orders
        tails = ["nil", "X"]
        spines = SPINE_Q
    else:
        n2 = len(T.shapes(2))
        n3 = len(T.shapes(3))
        for i in range(0, n2, 6):
            sh.append(("pairs", 2, 2, "FULL", i, min(n2, i + 6), 0))
        for i in range(0, n3, 4):
            sh.append(("pairs", 3, 3, "T33", i, min(n3, i + 4), 0))
        tails = ["nil", "X", "l1"]
        spines = SPINE_T
    for tl in tails:
        for pi in range(len(pstr_prefixes())):
            for ra in (R_PSTR_Q if tier == "quick" else R_PSTR):
                sh.append(("pstr", tl, pi, ra))
    na = len(ATOM_FAM)
    for i in range(0, na, 4):
        sh.append(("atoms", i, min(na, i + 4)))
    nn = len(num_alphabet())
    for i in range(0, nn, 10):
        sh.append(("nums", i, min(nn, i + 10)))
    for v in spines:
        sh.append(("spine", v))
    return sh


ROUTESETS = {"FULL": R_FULL, "Q22": R_Q22, "Q23": R_Q23, "T33": R_T33}


# ---------------------------------------------------------------------------
# case construction

def variants(t, routes, prefix):
    """[(route, pre, txt)] deduplicated by generated text"""
    out = []
    seen = set()
    for r in routes:
        if not T.applicable(t, r):
            continue
        pre, txt = T.render(t, r, T.Ctx(prefix))
        key = (tuple(pre), txt)
        if key in seen:
            continue
        seen.add(key)
        out.append((r, pre, txt))
    return out


def pair_goal(pa, ta, pb, tb):
    return "g((" + ",".join(pa + pb + ["c13(%s,%s,R)" % (ta, tb)]) + "))"


def num_render(v, enc, ctx):
    if enc == "lit":
        pre = []
        return pre, T._atomic(v, ctx, pre)
    x = ctx.fresh()
    if isinstance(v, float):
        pre = []
        base = T._atomic(v, ctx, pre)
        return pre + ["%s is %s * 1.0" % (x, base)], x
    if isinstance(v, Fraction):
        return ["%s is %d rdiv %d + 2^80 - 2^80" % (x, v.numerator, v.denominator)], x
    return ["%s is %d + 2^80 - 2^80" % (x, v)], x


def atom_render(a, form, route, ctx):
    """form: bare | arg | name"""
    pre = []
    if route == "lit":
        at = T.atom_text(a)
    else:
        at = ctx.fresh()
        codes = "[" + ",".join(str(ord(c)) for c in a) + "]"
        pre.append("atom_codes(%s,%s)" % (at, codes))
    if form == "bare":
        return pre, at
    if form == "arg":
        return pre, "f(%s)" % at
    v = ctx.fresh()
    pre.append("%s =.. [%s,x]" % (v, at))
    return pre, v


def atom_abs(a, form):
    if form == "bare":
        return a
    if form == "arg":
        return ("f", a)
    return (a, "x")


def gen(shard, tier):
    """yields (case, goal, a, b, nontrivial)"""
    kind = shard[0]
    if kind == "pairs":
        _, k1, k2, rs, lo, hi, both = shard
        routes = ROUTESETS[rs]
        S1 = T.shapes(k1)[lo:hi]
        S2 = T.shapes(k2)
        for s1 in S1:
            for s2 in S2:
                for (a, b) in T.fillings([s1, s2], 3):
                    va = variants(a, routes, "_A")
                    vb = variants(b, routes, "_B")
                    for (ra, pa, ta) in va:
                        for (rb, pb, tb) in vb:
                            nt = ra != rb or (T.has_string(a) and T.has_string(b))
                            yield ({"fam": "pairs", "a": T.tj(a), "b": T.tj(b), "ra": ra, "rb": rb},
                                   pair_goal(pa, ta, pb, tb), a, b, nt)
                            if both:
                                yield ({"fam": "pairs", "a": T.tj(b), "b": T.tj(a), "ra": rb, "rb": ra},
                                       pair_goal(pb, tb, pa, ta), b, a, nt)
    elif kind == "pstr":
        _, tl, pi, only_ra = shard
        P = pstr_prefixes()[pi]
        tail = tail_term(tl)
        pairs = []
        for (c1, c2) in MISMATCH:
            for suf in ("", "x"):
                pairs.append((P + c1 + suf, P + c2 + suf))
                pairs.append((P + c2 + suf, P + c1 + suf))
        for c in ("a", "é"):
            pairs.append((P, P + c))
            pairs.append((P + c, P))
        for c in ("a", "é", "😀"):
            pairs.append((P + c, P + c))
        for (s1, s2) in pairs:
            a = T.str_term(s1, tail)
            b = T.str_term(s2, tail)
            rset = R_PSTR_Q if tier == "quick" else R_PSTR
            va = variants(a, rset, "_A")
            vb = variants(b, rset, "_B")
            for (ra, pa, ta) in va:
                if ra != only_ra:
                    continue
                for (rb, pb, tb) in vb:
                    yield ({"fam": "pstr", "a": T.tj(a), "b": T.tj(b), "ra": ra, "rb": rb},
                           pair_goal(pa, ta, pb, tb), a, b, True)
    elif kind == "atoms":
        _, lo, hi = shard
        for a1 in ATOM_FAM[lo:hi]:
            for a2 in ATOM_FAM:
                for form in ("bare", "arg", "name"):
                    if form == "name" and ("" in (a1, a2)) and False:
                        continue
                    for ra in ("lit", "codes"):
                        for rb in ("lit", "codes"):
                            pa, ta = atom_render(a1, form, ra, T.Ctx("_A"))
                            pb, tb = atom_render(a2, form, rb, T.Ctx("_B"))
                            a = atom_abs(a1, form)
                            b = atom_abs(a2, form)
                            nt = any(ord(c) > 127 or c == "\x00" for c in a1 + a2) or ra != rb
                            yield ({"fam": "atoms", "a1": a1, "a2": a2, "form": form, "ra": ra, "rb": rb},
                                   pair_goal(pa, ta, pb, tb), a, b, nt)
    elif kind == "nums":
        _, lo, hi = shard
        A = num_alphabet()
        for i in range(lo, hi):
            (v1, e1) = A[i]
            for j, (v2, e2) in enumerate(A):
                pa, ta = num_render(v1, e1, T.Ctx("_A"))
                pb, tb = num_render(v2, e2, T.Ctx("_B"))
                nt = SO.cls(v1) != SO.cls(v2) or e1 != e2 or T.kind(v1) != T.kind(v2)
                yield ({"fam": "nums", "i": i, "j": j}, pair_goal(pa, ta, pb, tb), v1, v2, nt)


def allowed(a, b):
    """acceptable compare/3 results"""
    if isinstance(a, float) and isinstance(b, float) and a == 0.0 and b == 0.0:
        import math
        if math.copysign(1, a) != math.copysign(1, b):
            # the statement orders floats "by value"; an implementation that separates the two zeros
            # consistently is also a total order: accept both
            return {"=", "<"} if math.copysign(1, a) < 0 else {"=", ">"}
    return SO.allowed(a, b)


def parse_r(res):
    """-> (O, P, bits, modes) or None"""
    if res.abn or res.status != "done" or len(res.sols) != 1:
        return None
    r = res.sols[0].get("R")
    if not (isinstance(r, tuple) and r[0] == "r" and len(r) == 5):
        return None
    bits, _ = unlist(r[3])
    modes, _ = unlist(r[4])
    return r[1], r[2], bits, modes


def judge(res, a, b):
    """-> (label, violation kind or None, expected text, observed text)"""
    exp = allowed(a, b)
    exps = "|".join(sorted(exp))
    if res.abn:
        return "abnormal", "abnormal:" + res.abn, exps, res.abn
    p = parse_r(res)
    if p is None:
        obs = "status=%s exc=%s nsols=%d" % (res.status, px.formal_sig(res.formal()) if res.status == "exc" else None,
                                              len(res.sols))
        return "no_result", "no_result:" + obs, exps, obs
    O, P, bits, modes = p
    obs = "compare=%s reverse=%s preds=%s modes=%s" % (O, P, "".join(map(str, bits)), "".join(map(str, modes)))
    if O not in exp:
        return "wrong_order", "wrong_order obs=%s" % O, exps, obs
    if P != SO.flip(O):
        return "antisymmetry", "antisymmetry %s/%s" % (O, P), "reverse=" + SO.flip(O), obs
    want = [1 if x else 0 for x in SO.predicate_truths(O)]
    if bits != want:
        names = ["@<", "@=<", "@>", "@>=", "==", "\\=="]
        bad = ",".join(n for n, x, y in zip(names, bits, want) if x != y)
        return "pred_mismatch", "pred_mismatch %s vs compare=%s" % (bad, O), "preds=" + "".join(map(str, want)), obs
    wm = [1 if O == "<" else 0, 1 if O == "=" else 0, 1 if O == ">" else 0]
    if modes != wm:
        return "mode_mismatch", "mode_mismatch compare=%s" % O, "modes=" + "".join(map(str, wm)), obs
    if len(exp) > 1:
        return "var_order:" + O, None, exps, obs
    return "ok:" + O, None, exps, obs


def sig_of(case, vk, a, b):
    fam = case["fam"]
    if fam == "atoms":
        cl = "%s/%s" % (case["form"], "nonascii" if any(ord(c) > 127 for c in case["a1"] + case["a2"]) else "ascii")
    elif fam == "pstr":
        sa, _ = T.char_run(a)
        sb, _ = T.char_run(b)
        if sa == sb:
            rel = "equal"
        elif sb.startswith(sa) or sa.startswith(sb):
            rel = "prefix"
        else:
            rel = "mismatch"
        un = 1 if (case["ra"] in UNALIGNED or case["rb"] in UNALIGNED) else 0
        cl = "%s/%s rel=%s unaligned=%d" % (T.kind(a), T.kind(b), rel, un)
    else:
        cl = "%s/%s" % (T.kind(a), T.kind(b))
    return "%s %s via %s/%s: %s" % (fam, cl, case.get("ra", "-"), case.get("rb", "-"), vk)


def run_pairs(w, shard, tier, acc):
    for batch in px.chunked(gen(shard, tier), 100 if shard[0] == "pstr" else 400):
        rs = px.run_goals(w, [g for (_, g, _, _, _) in batch])
        for (case, g, a, b, nt), r in zip(batch, rs):
            label, vk, exp, obs = judge(r, a, b)
            acc.case(nt, label, sample={"goal": g, "expected": exp, "observed": obs})
            if vk:
                acc.violation(sig_of(case, vk, a, b), dict(case, goal=g), expected=exp, observed=obs)


# ---------------------------------------------------------------------------
# spine

def spine_goal(variant):
    ts = spine_terms()
    pres = []
    txts = []
    for i, t in enumerate(ts):
        if variant.startswith("mix"):
            k = int(variant[3:])
            route = MIX[(i + k) % len(MIX)]
        else:
            route = variant
        if not T.applicable(t, route):
            route = "lit"
        pre, txt = T.render(t, route, T.Ctx("_S%d_" % i))
        pres += pre
        txts.append(txt)
    return "g((" + ",".join(pres + ["c13_matrix([%s],R)" % ",".join(txts)]) + "))", ts


def spine_check(res, ts):
    """-> (list of (kind, indices, expected, observed)), matrix or None"""
    if res.abn or res.status != "done" or len(res.sols) != 1:
        return [("no_result", (), "matrix", res.abn or "status=%s" % res.status)], None
    rows, _ = unlist(res.sols[0]["R"])
    M = [unlist(r)[0] for r in rows]
    n = len(ts)
    bad = []
    if len(M) != n or any(len(r) != n for r in M):
        return [("bad_matrix", (), "%dx%d" % (n, n), "%d rows" % len(M))], None
    for i in range(n):
        for j in range(n):
            exp = allowed(ts[i], ts[j])
            if M[i][j] not in exp:
                bad.append(("wrong_order", (i, j), "|".join(sorted(exp)), M[i][j]))
            if M[j][i] != SO.flip(M[i][j]):
                bad.append(("antisymmetry", (i, j), SO.flip(M[i][j]), M[j][i]))
    le = [[M[i][j] in ("<", "=") for j in range(n)] for i in range(n)]
    for i in range(n):
        for j in range(n):
            if not le[i][j]:
                continue
            for k in range(n):
                if le[j][k]:
                    strict = M[i][j] == "<" or M[j][k] == "<"
                    want = "<" if strict else "="
                    if M[i][k] != want:
                        bad.append(("transitivity", (i, j, k), want, M[i][k]))
    return bad, M


def run_spine(w, shard, tier, acc):
    variant = shard[1]
    g, ts = spine_goal(variant)
    r = px.run_goals(w, [g])[0]
    bad, M = spine_check(r, ts)
    n = len(ts)
    badset = {}
    for (k, idx, exp, obs) in bad:
        badset.setdefault(idx, (k, exp, obs))
    # one evaluation per pair and per triple whose premises hold
    for i in range(n):
        for j in range(n):
            acc.case(True, "spine_pair:" + (M[i][j] if M else "none"))
    if M:
        ntr = 0
        for i in range(n):
            for j in range(n):
                if M[i][j] in "<=":
                    ntr += sum(1 for k in range(n) if M[j][k] in "<=")
        acc.evals += ntr
        acc.nontrivial += ntr
        acc.outcomes["spine_triple_ok"] += ntr - sum(1 for b in bad if b[0] == "transitivity")
    for (k, idx, exp, obs) in bad[:20]:
        kinds = "/".join(T.kind(ts[i]) for i in idx)
        acc.violation("spine %s %s via %s: exp=%s obs=%s" % (k, kinds, variant, exp, obs),
                      {"fam": "spine", "variant": variant, "kind": k, "idx": list(idx), "goal": g},
                      expected=exp, observed=obs)
        acc.outcomes["spine_" + k] += 1


def run_shard(w, shard, tier):
    acc = px.ShardAcc()
    if shard[0] == "spine":
        run_spine(w, shard, tier, acc)
    else:
        run_pairs(w, shard, tier, acc)
    return acc.result()


# ---------------------------------------------------------------------------
# replay

def rebuild(case):
    fam = case["fam"]
    if fam in ("pairs", "pstr"):
        a, b = T.jt(case["a"]), T.jt(case["b"])
        pa, ta = T.render(a, case["ra"], T.Ctx("_A"))
        pb, tb = T.render(b, case["rb"], T.Ctx("_B"))
        return pair_goal(pa, ta, pb, tb), a, b
    if fam == "atoms":
        pa, ta = atom_render(case["a1"], case["form"], case["ra"], T.Ctx("_A"))
        pb, tb = atom_render(case["a2"], case["form"], case["rb"], T.Ctx("_B"))
        return pair_goal(pa, ta, pb, tb), atom_abs(case["a1"], case["form"]), atom_abs(case["a2"], case["form"])
    if fam == "nums":
        A = num_alphabet()
        (v1, e1), (v2, e2) = A[case["i"]], A[case["j"]]
        pa, ta = num_render(v1, e1, T.Ctx("_A"))
        pb, tb = num_render(v2, e2, T.Ctx("_B"))
        return pair_goal(pa, ta, pb, tb), v1, v2
    raise KeyError(fam)


def recheck(w, case, tier):
    if case["fam"] == "spine":
        g, ts = spine_goal(case["variant"])
        r = px.run_goals(w, [g])[0]
        bad, M = spine_check(r, ts)
        for (k, idx, exp, obs) in bad:
            if k == case["kind"] and list(idx) == list(case["idx"]):
                kinds = "/".join(T.kind(ts[i]) for i in idx)
                return {"sig": "spine %s %s via %s: exp=%s obs=%s" % (k, kinds, case["variant"], exp, obs),
                        "case": case, "expected": exp, "observed": obs}
        return None
    g, a, b = rebuild(case)
    r = px.run_goals(w, [g])[0]
    label, vk, exp, obs = judge(r, a, b)
    if vk:
        return {"sig": sig_of(case, vk, a, b), "case": dict(case, goal=g), "expected": exp, "observed": obs}
    return None
