"""C25 — all-solutions predicates collect exactly the solutions (DESIGN §6 C25).

Generators whose solution sequences are known to Python (member/2 over literal
lists, between/3, disjunctions of unifications, a generator that throws after k
solutions) under findall/3,4, bagof/3, setof/3 (with ^), forall/2, countall/2,
call_nth/2, nested two deep (three in the thorough tier), and findall after an
exception.  Oracle: vx/model/c25_model.py (free-variable grouping up to
variance, groups in standard order of the witness, setof sorted and
deduplicated, failure on no solutions).  All solutions of every query are
compared, in order, up to renaming of variables.
"""
import itertools

from vx.core import px, terms
from vx.core.terms import V, mklist
from vx.model import grpe, c25_model as M

ID = "C25"
LEVEL = "exploration"
ENGINE = "PEX"
TECHNIQUE = "bounded exhaustive enumeration of generator x template x quantifier x collector compositions, Python oracle"
RULE = ("every combination of 16 generators (member over literal lists with duplicates, unsorted and mixed-type "
        "values, one and two free variables, an unbound witness; between/3; a disjunction of unifications; an empty "
        "generator; generators throwing at the 1st/2nd/3rd solution) x templates {X, X-Y, Y, f(X,W) with W free} x "
        "^-patterns (every subset of the non-template variables, chained and as one term) under findall/3, findall/4 "
        "(unbound and bound tail), bagof/3, setof/3, forall/2 (3 tests), countall/2, call_nth/2 (N unbound, 0, 1, 2, "
        "last, last+1, -1), nested call_nth, every collector over every collector (depth 2; depth 3 "
        "setof-over-bagof-over-findall style in the thorough tier), findall after a caught exception in a generator, "
        "and type/instantiation errors of the result argument and the goal. Non-trivial: >= 2 witness groups, a "
        "partial ^ quantification, an exception inside a generator, or nesting.")
LEVEL_TEXT = "complete enumeration of a small compositional grammar of queries; exact answer sequences compared"
ASSUMPTIONS = ["vx/model/c25_model.py (300-line evaluator)", "driver transport",
               "the order of two free variables inside the witness term is implementation defined: both orders accepted",
               "error context terms are not compared"]
MIN_OUTCOMES = 4

X, Y, Z, W, L, R, N, K, T0, L2, R2 = (V(n) for n in ["X", "Y", "Z", "W", "L", "R", "N", "K", "T0", "L2", "R2"])


def lst(*xs):
    return mklist(list(xs))


def pr(a, b):
    return ("-", a, b)


def thrower(k):
    return (",", ("member", X, lst(1, 2, 3)), (";", ("->", ("==", X, k), ("throw", "oops")), "true"))


# name -> (goal term, variables it binds in order)
GENS = {
    "m_dup": (("member", X, lst("c", "a", "b", "a")), [X]),
    "m_mixed": (("member", X, lst("b", 1, ("f", "a"), 3, "a", 1, grpe.strlist("ab"), "[]")), [X]),
    "m_pair": (("member", pr(X, Y), lst(pr(1, "a"), pr(2, "b"), pr(3, "a"))), [X, Y]),
    "m_pair_dup": (("member", pr(X, Y), lst(pr(2, "b"), pr(1, "a"), pr(3, "b"), pr(1, "a"))), [X, Y]),
    "m_unbound_w": (("member", pr(X, Y), lst(pr(1, "a"), pr(2, V("U1")), pr(3, "a"))), [X, Y]),
    "m_triple": (("member", pr(pr(X, Y), Z), lst(pr(pr(1, "a"), "p"), pr(pr(2, "b"), "p"), pr(pr(3, "a"), "q"),
                                                  pr(pr(4, "b"), "q"))), [X, Y, Z]),
    "between": (("between", 1, 3, X), [X]),
    "disj": ((";", ("=", X, 1), (";", ("=", X, 2), ("=", X, 1))), [X]),
    "empty": (("member", X, "[]"), [X]),
    "fail_late": ((",", ("member", X, lst(1, 2)), "fail"), [X]),
    "one": (("=", X, "a"), [X]),
    "conj": ((",", ("member", X, lst(1, 2)), ("member", Y, lst("b", "a"))), [X, Y]),
    "wit_struct": (("member", pr(X, Y), lst(pr(1, ("g", "b")), pr(2, ("g", "a")), pr(3, ("g", "b")))), [X, Y]),
    "throw1": (thrower(1), [X]),
    "throw2": (thrower(2), [X]),
    "throw3": (thrower(3), [X]),
}
GEN_ORDER = list(GENS)
THROWERS = {"throw1", "throw2", "throw3"}


def templates(gvars):
    ts = [("X", X)]
    if Y in gvars:
        ts += [("X-Y", pr(X, Y)), ("Y", Y)]
    ts.append(("f(X,W)", ("f", X, W)))
    return ts


def ex_patterns(free):
    """ways of quantifying a subset of the free variables: (label, wrapper)"""
    out = [("none", lambda g: g)]
    for r in range(1, len(free) + 1):
        for sub in itertools.combinations(free, r):
            def chain(g, sub=sub):
                for v in reversed(sub):
                    g = ("^", v, g)
                return g
            out.append(("^".join(v.n for v in sub) + "^", chain))
            if len(sub) >= 2:
                def one(g, sub=sub):
                    t = sub[0]
                    for v in sub[1:]:
                        t = pr(t, v)
                    return ("^", t, g)
                out.append(("(" + "-".join(v.n for v in sub) + ")^", one))
    return out


def collectors(gname, depth_tag=""):
    """all first-level collector goals over one generator: (label, goal term, nontrivial hint)"""
    g, gv = GENS[gname]
    out = []
    for tl, t in templates(gv):
        tv = grpe.term_vars(t)
        free = [v for v in gv if v not in tv]
        out.append(("findall(%s)" % tl, ("findall", t, g, L), gname in THROWERS))
        out.append(("findall4(%s,T0)" % tl, ("findall", t, g, L, T0), gname in THROWERS))
        out.append(("findall4(%s,[z])" % tl, ("findall", t, g, L, lst("z")), gname in THROWERS))
        for el, wrap in ex_patterns(free):
            partial = el != "none" and len(free) > el.count("^") + el.count("-") - (1 if "(" in el else 0)
            for kind in ("bagof", "setof"):
                out.append(("%s(%s,%s)" % (kind, tl, el), (kind, t, wrap(g), L),
                            bool(free) or gname in THROWERS or partial))
    return out


def build_cases(tier):
    """-> list of (family, label, goal term)"""
    cases = []
    for gn in GEN_ORDER:
        g, gv = GENS[gn]
        for lab, goal, _ in collectors(gn):
            cases.append(("c1", "%s/%s" % (gn, lab), goal))
        # forall
        for cl, c in (("X\\==a", ("\\==", X, "a")), ("X==X", ("==", X, X)), ("X==1", ("==", X, 1))):
            cases.append(("forall", "%s/forall(%s)" % (gn, cl), ("forall", g, c)))
        # countall
        for nl, n in (("N", N), ("0", 0), ("2", 2), ("3", 3), ("4", 4), ("-1", -1), ("a", "a")):
            cases.append(("countall", "%s/countall(%s)" % (gn, nl), ("countall", g, n)))
        # call_nth
        for nl, n in (("N", N), ("0", 0), ("1", 1), ("2", 2), ("3", 3), ("4", 4), ("5", 5), ("-1", -1), ("a", "a")):
            cases.append(("call_nth", "%s/call_nth(%s)" % (gn, nl), ("call_nth", g, n)))
        cases.append(("call_nth", "%s/call_nth(call_nth(K),N)" % gn, ("call_nth", ("call_nth", g, K), N)))
        cases.append(("call_nth", "%s/call_nth(N),call_nth(K)" % gn,
                      (",", ("call_nth", g, N), ("call_nth", ("member", Z, lst("p", "q")), K))))
        # errors of the result argument / goal
        for kind in ("findall", "bagof", "setof"):
            cases.append(("errors", "%s/%s(L=foo)" % (gn, kind), (kind, X, g, "foo")))
            cases.append(("errors", "%s/%s(L=[a|foo])" % (gn, kind), (kind, X, g, (".", "a", "foo"))))
            cases.append(("errors", "%s/%s(L=[A,B|T])" % (gn, kind), (kind, X, g, (".", V("A"), (".", V("B"), V("T"))))))
        # a clean findall after an exception in a generator
        for gn2 in ("throw1", "throw2", "throw3"):
            g2 = GENS[gn2][0]
            g2r = grpe.rename(g2, "q")
            for kind in ("findall", "bagof", "setof"):
                cases.append(("after_throw", "%s after caught %s(%s)" % (gn, kind, gn2),
                              (",", ("catch", (kind, V("Xq"), g2r, V("Lq")), V("Eq"), "true"),
                               ("findall", X, g, L))))
            cases.append(("after_throw", "%s/findall around caught inner findall(%s)" % (gn, gn2),
                          ("findall", pr(X, L2),
                           (",", g, ("catch", ("findall", V("Xq"), g2r, L2), V("Eq"), ("=", L2, "caught"))), L)))
    cases.append(("errors", "findall(G unbound)", ("findall", X, V("G"), L)))
    cases.append(("errors", "findall(G=1)", ("findall", X, 1, L)))
    cases.append(("errors", "bagof(G unbound)", ("bagof", X, V("G"), L)))
    cases.append(("errors", "bagof(Y^G unbound)", ("bagof", X, ("^", Y, V("G")), L)))
    cases.append(("errors", "setof(G=1)", ("setof", X, 1, L)))
    # depth 2: every collector over every first-level collector
    inner_gens = GEN_ORDER if tier == "thorough" else [g for g in GEN_ORDER if g not in ("m_mixed", "fail_late", "one")]
    for gn in inner_gens:
        for lab, inner, _ in collectors(gn):
            if lab.startswith("findall4"):
                continue
            gv = GENS[gn][1]
            iv = [v for v in grpe.term_vars(inner) if v.n in ("X", "Y", "Z")]
            tv_inner = grpe.term_vars(inner[1])
            for olab, outer in outers(inner, gv, tv_inner):
                cases.append(("c2", "%s/%s<-%s" % (gn, olab, lab), outer))
    if tier == "thorough":
        # depth 3 over the two-variable generators
        for gn in ("m_pair", "m_pair_dup", "m_triple", "m_unbound_w", "throw2", "empty"):
            gv = GENS[gn][1]
            for lab, inner, _ in collectors(gn):
                if lab.startswith("findall4") or "f(X,W)" in lab:
                    continue
                for olab, outer in outers(inner, gv, grpe.term_vars(inner[1])):
                    if "L2" in [v.n for v in grpe.term_vars(outer)] and False:
                        continue
                    for o3lab, o3 in outers3(outer):
                        cases.append(("c3", "%s/%s<-%s<-%s" % (gn, o3lab, olab, lab), o3))
    return cases


def outers(inner, gv, tv_inner):
    """second-level collectors whose goal is a first-level collector binding L"""
    free = [v for v in grpe.term_vars(strip_ex(inner[2])) if v not in tv_inner and v in (X, Y, Z)]
    # variables that the inner call leaves free (its witnesses): they can be shared with the outer template
    out = []
    wt = None
    for v in gv:
        if v not in tv_inner and v not in ex_vars(inner[2]):
            wt = v if wt is None else pr(wt, v)
    temps = [("L", L)]
    if wt is not None:
        temps.append(("Wit-L", pr(wt, L)))
    for tl, t in temps:
        out.append(("findall(%s)" % tl, ("findall", t, inner, R)))
        for kind in ("bagof", "setof"):
            out.append(("%s(%s)" % (kind, tl), (kind, t, inner, R)))
            if wt is not None and tl == "L":
                g = inner
                for v in reversed(grpe.term_vars(wt)):
                    g = ("^", v, g)
                out.append(("%s(%s,wit^)" % (kind, tl), (kind, t, g, R)))
    return out


def outers3(mid):
    out = []
    for kind in ("findall", "bagof", "setof"):
        out.append(("%s(R)" % kind, (kind, R, mid, R2)))
    return out


def strip_ex(g):
    while isinstance(g, tuple) and g[0] == "^" and len(g) == 3:
        g = g[2]
    return g


def ex_vars(g):
    acc = []
    while isinstance(g, tuple) and g[0] == "^" and len(g) == 3:
        grpe.term_vars(g[1], acc)
        g = g[2]
    return acc


# ---------------------------------------------------------------------------
# text

def goal_text(g):
    if isinstance(g, tuple) and g[0] == "," and len(g) == 3:
        return "(%s, %s)" % (goal_text(g[1]), goal_text(g[2]))
    if isinstance(g, tuple) and g[0] == ";" and len(g) == 3:
        return "(%s ; %s)" % (goal_text(g[1]), goal_text(g[2]))
    if isinstance(g, tuple) and g[0] == "->" and len(g) == 3:
        return "(%s -> %s)" % (goal_text(g[1]), goal_text(g[2]))
    if isinstance(g, tuple) and g[0] == "^" and len(g) == 3:
        return "%s^%s" % (arg_text(g[1]), goal_text(g[2]))
    if isinstance(g, tuple) and g[0] in ("findall", "bagof", "setof", "forall", "countall", "call_nth", "catch", "\\+"):
        return "%s(%s)" % (g[0] if g[0] != "\\+" else "\\+", ", ".join(
            goal_text(a) if looks_goal(a) else arg_text(a) for a in g[1:]))
    return arg_text(g)


def looks_goal(a):
    return isinstance(a, tuple) and a[0] in (",", ";", "->", "^", "findall", "bagof", "setof", "forall", "countall",
                                              "call_nth", "catch", "\\+", "member", "between", "=", "==", "\\==", "throw")


def arg_text(t):
    if isinstance(t, tuple) and t[0] == "-" and len(t) == 3:
        return "(%s-%s)" % (arg_text(t[1]), arg_text(t[2]))
    if isinstance(t, tuple) and t[0] in ("==", "\\==", "=") and len(t) == 3:
        return "(%s %s %s)" % (arg_text(t[1]), t[0], arg_text(t[2]))
    if isinstance(t, tuple) and len(t) == 3 and t[0] == ".":
        el, tail = terms.unlist(t)
        s = "[" + ",".join(arg_text(e) for e in el)
        if tail != terms.NIL:
            s += "|" + arg_text(tail)
        return s + "]"
    if isinstance(t, tuple):
        return "%s(%s)" % (terms.quote_atom(t[0]), ",".join(goal_text(a) if looks_goal(a) else arg_text(a) for a in t[1:]))
    if isinstance(t, V):
        return t.n if not t.n.startswith("U") else "_" + t.n
    return terms.fmt(t)


# ---------------------------------------------------------------------------

def named_vars(goal):
    return [v.n if not v.n.startswith("U") else "_" + v.n for v in grpe.term_vars(goal)]


def canon_sol(names, d):
    return grpe.canon(tuple(["sol"] + [d.get(n) for n in names]))


def norm_obs_term(t):
    """observed numbers/atoms as the model writes them"""
    return t


def judge(goal, res):
    """-> (label, sig-kind or None, observed, expected)"""
    names = [n for n in named_vars(goal) if not n.startswith("_")]
    variants = M.run_variants(goal, [v.n for v in grpe.term_vars(goal) if not v.n.startswith("U")])
    if res.abn:
        return "abnormal", "abnormal:" + res.abn, res.abn, str(variants[0][0])
    obs_sols = [canon_sol(names, s) for s in res.sols]
    if res.status == "exc":
        f = res.formal()
        of = ("exc", px.formal_class(f) if f[0] != "$ball" else ("ball", f[1]))
    else:
        of = (res.status,)
    exps = []
    for status, sols, ball in variants:
        es = [canon_sol(names, d) for d in sols]
        if status == "exc":
            if isinstance(ball, tuple) and ball[0] == "error" and len(ball) == 3:
                ef = ("exc", px.formal_class(ball[1]))
            else:
                ef = ("exc", ("ball", ball))
        else:
            ef = (status,)
        exps.append((ef, es))
    if (of, obs_sols) in exps:
        st, sols, ball = variants[0]
        lab = "exc:%s" % (of[1] if isinstance(of[1], str) else "ball") if of[0] == "exc" else \
            "%s:%s" % (of[0], "none" if not obs_sols else "one" if len(obs_sols) == 1 else "many")
        return lab, None, (of, obs_sols), None
    ef, es = exps[0]
    if of != ef:
        kind = "status:%s>%s" % (fmt_st(ef), fmt_st(of))
    elif len(obs_sols) < len(es):
        kind = "solutions:fewer" if obs_sols else "solutions:none"
    elif len(obs_sols) > len(es):
        kind = "solutions:more"
    else:
        kind = "solutions:differ"
    return "mismatch", kind, (of, obs_sols), exps[0]


def fmt_st(x):
    if x[0] == "exc":
        return "exc(%s)" % (x[1] if isinstance(x[1], str) else "ball")
    return x[0]


def shape_of(goal):
    """collector skeleton of a query, e.g. setof(bagof(^)) — the class a defect belongs to"""
    if isinstance(goal, tuple):
        f = goal[0]
        if f in ("findall", "bagof", "setof"):
            g = goal[2]
            ex = ""
            if isinstance(g, tuple) and g[0] == "^":
                nfree = M.free_witness_count(goal[1], g)
                ex = "^all" if nfree == 0 else "^part"
            elif f != "findall" and not isinstance(g, V):
                nfree = M.free_witness_count(goal[1], g) if isinstance(g, tuple) else 0
                ex = "" if nfree == 0 else ",free"
            inner = shape_of(strip_ex(g))
            return "%s%s(%s%s)" % (f, len(goal) - 1 if f == "findall" and len(goal) == 5 else "", inner, ex) if inner or ex else \
                "%s%s" % (f, "4" if f == "findall" and len(goal) == 5 else "")
        if f in (",", ";", "->", "catch", "forall", "countall", "call_nth", "\\+"):
            parts = [shape_of(a) for a in goal[1:]]
            parts = [p for p in parts if p]
            name = {",": "and"}.get(f, f)
            if f in (",", ";", "->"):
                return "+".join(parts)
            return "%s(%s)" % (name, "+".join(parts)) if parts else name
        if f == "throw":
            return "throw"
    return ""


def nontrivial(fam, label, goal):
    if fam in ("c2", "c3", "after_throw"):
        return True
    if "throw" in label:
        return True
    if fam == "c1" and ("bagof" in label or "setof" in label):
        return ",none)" not in label or M.free_witness_count(goal[1], goal[2]) > 0
    return False


def setup(w, tier):
    grpe.consult_checked(w, ":- use_module(library(between)).\n", persist=True)


_CASES = {}


def cases_for(tier):
    if tier not in _CASES:
        _CASES[tier] = build_cases(tier)
    return _CASES[tier]


NSHARD = 32


def bound_text(tier):
    return ("16 generators x templates x ^-patterns x 9 collectors, all depth-2 compositions%s; %d queries"
            % (", depth-3 compositions over 6 generators" if tier == "thorough" else " (13 generators)",
               len(cases_for(tier))))


def shards(tier):
    return list(range(NSHARD))


def run_shard(w, shard, tier):
    acc = px.ShardAcc()
    cs = cases_for(tier)[shard::NSHARD]
    for batch in px.chunked(cs, 300):
        rs = px.run_goals(w, ["g(%s)" % goal_text(g) for (_, _, g) in batch])
        for (fam, label, goal), r in zip(batch, rs):
            lab, kind, obs, exp = judge(goal, r)
            acc.case(nontrivial(fam, label, goal), lab,
                     sample={"query": goal_text(goal), "observed": repr(obs)[:300]})
            if kind:
                acc.violation("%s %s %s" % (fam, shape_of(goal), kind),
                              {"label": label, "tier": tier, "query": goal_text(goal)},
                              expected=repr(exp)[:1500], observed=repr(obs)[:1500])
    return acc.result()


def recheck(w, case, tier):
    # the query is rebuilt from its label, never read back from the replay file
    for t in (case.get("tier", tier), "thorough"):
        for fam, label, goal in cases_for(t):
            if label == case["label"]:
                r = px.run_goals(w, ["g(%s)" % goal_text(goal)])[0]
                lab, kind, obs, exp = judge(goal, r)
                if kind:
                    return {"sig": "%s %s %s" % (fam, shape_of(goal), kind), "case": case,
                            "expected": repr(exp)[:1500], "observed": repr(obs)[:1500]}
                return None
    return None
