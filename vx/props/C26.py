"""C26 — dif/2, freeze/2 and when/2 are insensitive to posting order (DESIGN §6 C26).

Explicit-state search over event orders. An event is a constraint post or a
binding over the variables X, Y, Z; for every multiset of <= 2 posts and <= 2
(quick) / <= 3 (thorough) bindings EVERY permutation is executed on the real
machine, from a fresh set of variables.

Oracle (2), the direct model (Python): dif fails exactly at the event that
makes its sides identical and is dropped when they become non-unifiable; a
goal suspended by freeze/when is logged exactly once, inside the event that
makes its condition true (and immediately at the post when it already is);
final bindings of [X,Y,Z]; the meaning of the residual store = the set of
ground completions of the free variables over {a, b, f(a)} that the live
constrained variables accept; and the same set computed from the residual
goals of copy_term/3 re-posted on fresh variables.
Oracle (1): all permutations of one multiset agree on success, final bindings,
completions and on the multiset of goals woken (checked on the model as a
self-check and on the observations).
"""
import itertools
from collections import Counter

from vx.core import px
from vx.core.terms import V, fmt

ID = "C26"
LEVEL = "model_checking"
ENGINE = "PEX"
TECHNIQUE = "explicit-state search over all event orders, Python constraint-store model"
RULE = ("every permutation of every multiset of <= 2 posts (9 kinds: 3 dif, 2 freeze, 4 when) and "
        "<= 2 (quick) / <= 3 (thorough) bindings (7 kinds) over X,Y,Z, at least one post (thorough also 3 posts with <= 2 bindings); per sequence: "
        "failing event, goals woken per event, final bindings, ground completions over {a,b,f(a)} of the "
        "live store and of the copy_term/3 residual goals. Non-trivial: a post precedes a binding that "
        "touches one of its variables.")
LEVEL_TEXT = ("model checking of the real attribute-hook machinery: every interleaving of the event multiset is "
              "executed; states are event prefixes, the invariant (agreement with the direct model) is evaluated "
              "after every event through the wake log and at the end through ground completion")
ASSUMPTIONS = ["driver transport (vx_obs records)", "findall/3, member/2, bb_put/bb_get used by the observer",
               "the order of goals woken by one and the same event is unspecified (compared as a multiset per event)",
               "events after the first failing event are not compared"]
MIN_OUTCOMES = 4

X, Y, Z = V("X"), V("Y"), V("Z")

# post id -> (kind, text, data)
POSTS = {
    "d1": ("dif", "dif(X,Y)", (X, Y)),
    "d2": ("dif", "dif(X,a)", (X, "a")),
    "d3": ("dif", "dif(f(X,Y),f(a,b))", (("f", X, Y), ("f", "a", "b"))),
    "f1": ("freeze", "freeze(X,c26_log(f1,X))", (X, None)),
    "f2": ("freeze", "freeze(Y,c26_bind(f2,Y,X))", (Y, (X, "b"))),
    "w1": ("when", "when(ground(X+Y),c26_wlog(w1))", ("ground", ("+", X, Y))),
    "w2": ("when", "when((nonvar(X);nonvar(Y)),c26_wlog(w2))", (";", ("nonvar", X), ("nonvar", Y))),
    "w3": ("when", "when(nonvar(X),c26_wlog(w3))", ("nonvar", X)),
    "w4": ("when", "when((nonvar(X),nonvar(Y)),c26_wlog(w4))", (",", ("nonvar", X), ("nonvar", Y))),
}
BINDS = {
    "b1": ("X=a", (X, "a")),
    "b2": ("X=b", (X, "b")),
    "b3": ("Y=a", (Y, "a")),
    "b4": ("Y=b", (Y, "b")),
    "b5": ("X=Y", (X, Y)),
    "b6": ("Y=f(Z)", (Y, ("f", Z))),
    "b7": ("Z=a", (Z, "a")),
}
PORDER = sorted(POSTS)      # the general family: 3 dif, 2 freeze, 4 when
BORDER = sorted(BINDS)

# dif family: several dif/2 goals whose stored goals (L \== R) are unifiable but not identical
# (dif.pl removes and re-posts stored goals; remove_goal/3 must compare them with ==)
POSTS.update({
    "d4": ("dif", "dif(X-Y,a-b)", (("-", X, Y), ("-", "a", "b"))),
    "d5": ("dif", "dif(X-Z,a-b)", (("-", X, Z), ("-", "a", "b"))),
    "d6": ("dif", "dif(f(X,Z),f(a,b))", (("f", X, Z), ("f", "a", "b"))),
    "d7": ("dif", "dif(g(X,Y,Z),g(a,b,c))", (("g", X, Y, Z), ("g", "a", "b", "c"))),
    "d8": ("dif", "dif(Y-Z,b-b)", (("-", Y, Z), ("-", "b", "b"))),
})
BINDS.update({
    "c1": ("Y=c", (Y, "c")),
    "c2": ("Z=d", (Z, "d")),
    "c3": ("Z=b", (Z, "b")),
})
DIF_POSTS = ["d1", "d2", "d3", "d4", "d5", "d6", "d7", "d8"]
DIF_BINDS = ["b1", "b2", "b4", "b5", "b7", "c1", "c2", "c3"]   # X=a X=b Y=b X=Y Z=a Y=c Z=d Z=b
UNIVERSE = ["a", "b", ("f", "a")]

HELPERS = r"""
:- use_module(library(dif)).
:- use_module(library(freeze)).
:- use_module(library(when)).
:- use_module(library(lists)).
:- initialization(bb_put(c26_quiet, false)).

c26_ev(I) :- vx_obs(ev(I)).
c26_state(V, S) :- ( nonvar(V) -> S = bound ; S = unbound ).
c26_log(K, V) :- ( bb_get(c26_quiet, true) -> true ; c26_state(V, S), vx_obs(w(K, S)) ).
c26_wlog(K) :- ( bb_get(c26_quiet, true) -> true ; vx_obs(w(K, ok)) ).
c26_bind(K, V, X) :- c26_log(K, V), X = b.

c26_ground([]).
c26_ground([V|Vs]) :- member(V, [a,b,f(a)]), c26_ground(Vs).

c26_fin(Vs) :-
    term_variables(Vs, Fs),
    bb_put(c26_quiet, true),
    catch(findall(Vs, c26_ground(Fs), L1), E1, L1 = exc(E1)),
    catch(c26_resid(Vs, L2), E2, L2 = exc(E2)),
    bb_put(c26_quiet, false),
    vx_obs(fin(Vs, L1, L2)).

c26_resid(Vs, L) :-
    copy_term(Vs, Vs1, Gs),
    term_variables(Vs1, Fs1),
    findall(Vs1, (c26_call_all(Gs), c26_ground(Fs1)), L).

c26_call_all([]).
c26_call_all([G|Gs]) :- call(G), c26_call_all(Gs).
"""


def bound_text(tier):
    nb = 3 if tier == "thorough" else 2
    return ("all permutations of all multisets of 1..2 posts (9 kinds) and 0..%d bindings (7 kinds)" % nb +
            ("; 3 posts and 0..2 bindings" if tier == "thorough" else "") +
            "; dif family: pairs/triples of 8 dif posts with 8 bindings")


# ---------------------------------------------------------------------------
# space

def multisets(tier):
    nb = 3 if tier == "thorough" else 2
    out = []
    for np_ in ((1, 2, 3) if tier == "thorough" else (1, 2)):
        for ps in itertools.combinations_with_replacement(PORDER, np_):
            for k in range(0, (2 if np_ == 3 else nb) + 1):
                for bs in itertools.combinations_with_replacement(BORDER, k):
                    out.append(list(ps) + list(bs))
    # dif family: pairs with <= 2 bindings, triples with <= 1 binding (thorough: triples of the five
    # structured posts with <= 2 bindings)
    seen = {tuple(m) for m in out}

    def add(ps, bs):
        m = list(ps) + list(bs)
        if tuple(m) not in seen:
            seen.add(tuple(m))
            out.append(m)
    for ps in itertools.combinations_with_replacement(DIF_POSTS, 2):
        for k in range(0, 3):
            for bs in itertools.combinations_with_replacement(DIF_BINDS, k):
                add(ps, bs)
    for ps in itertools.combinations_with_replacement(DIF_POSTS, 3):
        for k in range(0, 2):
            for bs in itertools.combinations_with_replacement(DIF_BINDS, k):
                add(ps, bs)
    if tier == "thorough":
        for ps in itertools.combinations(["d3", "d4", "d5", "d6", "d7", "d8"], 3):
            for bs in itertools.combinations_with_replacement(DIF_BINDS, 2):
                add(ps, bs)
    return out


NSHARDS = {"quick": 32, "thorough": 192}


def shards(tier):
    n = NSHARDS[tier]
    return [("ms", i, n) for i in range(n)]


def perms(ms):
    """distinct permutations of a multiset (list of event ids), in lexicographic order"""
    return sorted(set(itertools.permutations(ms)))


# ---------------------------------------------------------------------------
# model

class Fail(Exception):
    pass


def walk(t, s):
    while isinstance(t, V) and t.n in s:
        t = s[t.n]
    return t


def resolve(t, s):
    t = walk(t, s)
    if isinstance(t, tuple):
        return (t[0],) + tuple(resolve(a, s) for a in t[1:])
    return t


def unify(a, b, s):
    """-> new substitution or None (no occurs check; the alphabet cannot build cycles)"""
    a = walk(a, s)
    b = walk(b, s)
    if isinstance(a, V) and isinstance(b, V) and a.n == b.n:
        return s
    if isinstance(a, V):
        s = dict(s)
        s[a.n] = b
        return s
    if isinstance(b, V):
        s = dict(s)
        s[b.n] = a
        return s
    if isinstance(a, tuple) and isinstance(b, tuple):
        if a[0] != b[0] or len(a) != len(b):
            return None
        for x, y in zip(a[1:], b[1:]):
            s = unify(x, y, s)
            if s is None:
                return None
        return s
    return s if (a == b and type(a) == type(b)) else None


def is_ground(t, s):
    t = walk(t, s)
    if isinstance(t, V):
        return False
    if isinstance(t, tuple):
        return all(is_ground(a, s) for a in t[1:])
    return True


def cond_true(c, s):
    k = c[0]
    if k == "ground":
        return is_ground(c[1], s)
    if k == "nonvar":
        return not isinstance(walk(c[1], s), V)
    if k == ",":
        return cond_true(c[1], s) and cond_true(c[2], s)
    if k == ";":
        return cond_true(c[1], s) or cond_true(c[2], s)
    raise ValueError(c)


def term_vars(t, s, acc):
    t = walk(t, s)
    if isinstance(t, V):
        if t.n not in acc:
            acc.append(t.n)
    elif isinstance(t, tuple):
        for a in t[1:]:
            term_vars(a, s, acc)
    return acc


class Store:
    def __init__(self):
        self.s = {}
        self.difs = []     # (lhs, rhs)
        self.susp = []     # (post id, kind, data)
        self.log = []      # wake entries of the current event: (post id, state)

    def copy(self):
        c = Store()
        c.s = dict(self.s)
        c.difs = list(self.difs)
        c.susp = list(self.susp)
        return c

    def run_goal(self, pid, kind, data):
        if kind == "freeze":
            self.log.append((pid, "bound"))
            if data[1] is not None:
                s2 = unify(data[1][0], data[1][1], self.s)
                if s2 is None:
                    raise Fail()
                self.s = s2
        else:
            self.log.append((pid, "ok"))

    def wake(self):
        changed = True
        while changed:
            changed = False
            nd = []
            for (l, r) in self.difs:
                if resolve(l, self.s) == resolve(r, self.s):
                    raise Fail()
                if unify(l, r, self.s) is None:
                    continue
                nd.append((l, r))
            self.difs = nd
            for i, (pid, kind, data) in enumerate(self.susp):
                if kind == "freeze":
                    ready = not isinstance(walk(data[0], self.s), V)
                else:
                    ready = cond_true(data, self.s)
                if ready:
                    del self.susp[i]
                    self.run_goal(pid, kind, data)
                    changed = True
                    break

    def event(self, eid):
        self.log = []
        if eid in BINDS:
            a, b = BINDS[eid][1]
            s2 = unify(a, b, self.s)
            if s2 is None:
                raise Fail()
            self.s = s2
        else:
            kind, _, data = POSTS[eid]
            if kind == "dif":
                self.difs.append(data)
            else:
                self.susp.append((eid, kind, data))
        self.wake()
        return Counter(self.log)

    def final(self):
        """canonical [X,Y,Z] (variables renamed by first occurrence)"""
        return canon([resolve(v, self.s) for v in (X, Y, Z)])

    def completions(self):
        free = term_vars(("t", X, Y, Z), self.s, [])
        out = []
        for vals in itertools.product(UNIVERSE, repeat=len(free)):
            c = self.copy()
            try:
                for n, val in zip(free, vals):
                    s2 = unify(V(n), val, c.s)
                    if s2 is None:
                        raise Fail()
                    c.s = s2
                    c.wake()
            except Fail:
                continue
            out.append(tuple(resolve(v, c.s) for v in (X, Y, Z)))
        return sorted(out, key=repr)


def canon(ts):
    m = {}

    def go(t):
        if isinstance(t, V):
            if t.n not in m:
                m[t.n] = V(len(m))
            return m[t.n]
        if isinstance(t, tuple):
            return (t[0],) + tuple(go(a) for a in t[1:])
        return t
    return tuple(go(t) for t in ts)


def model(seq):
    """-> dict(fail_at=None|index (1-based), logs=[Counter per completed event], final, comps, total)"""
    st = Store()
    logs = []
    for i, e in enumerate(seq):
        try:
            logs.append(st.event(e))
        except Fail:
            return {"fail_at": i + 1, "logs": logs, "final": None, "comps": None}
    return {"fail_at": None, "logs": logs, "final": st.final(), "comps": st.completions()}


def summary(m):
    """order-independent part of a model/observation result"""
    if m["fail_at"] is not None:
        return ("fail",)
    tot = Counter()
    for c in m["logs"]:
        tot.update(c)
    return ("ok", m["final"], tuple(m["comps"]), tuple(sorted(tot.items())))


# ---------------------------------------------------------------------------
# execution

def ev_text(e):
    return POSTS[e][1] if e in POSTS else BINDS[e][0]


def goal_text(seq):
    parts = []
    for i, e in enumerate(seq):
        parts.append("c26_ev(%d)" % (i + 1))
        parts.append(ev_text(e))
    parts.append("c26_ev(0)")
    parts.append("c26_fin([X,Y,Z])")
    # X, Y, Z always occur in the text (c26_fin), so the S record names them
    return "g((%s))" % ",".join(parts)


def lst(t):
    from vx.core.terms import unlist
    el, tail = unlist(t)
    return el


def observe(res, n):
    """-> dict like model(); raises nothing; 'abn' key on abnormal outcomes"""
    if res.abn:
        return {"abn": res.abn}
    if res.status == "exc":
        return {"abn": "exception:" + px.formal_sig(res.formal())}
    logs = []
    cur = None
    last_ev = None
    fin = None
    stray = []
    for o in res.obs:
        if isinstance(o, tuple) and o[0] == "ev":
            last_ev = o[1]
            if o[1] != 0:
                cur = Counter()
                logs.append(cur)
            else:
                cur = None
        elif isinstance(o, tuple) and o[0] == "w":
            if cur is None:
                stray.append(o)
            else:
                cur[(o[1], o[2])] += 1
        elif isinstance(o, tuple) and o[0] == "fin":
            fin = o
    if stray:
        return {"abn": "wake outside any event: %r" % (stray[:2],)}
    if len(res.sols) > 1:
        return {"abn": "%d solutions" % len(res.sols)}
    if len(res.sols) == 0:
        if last_ev in (0, None) or fin is not None:
            return {"abn": "failed after the last event (last marker %r)" % (last_ev,)}
        return {"fail_at": last_ev, "logs": logs[:-1], "final": None, "comps": None, "comps3": None}
    if fin is None or last_ev != 0:
        return {"abn": "no fin record"}
    # renumber by first occurrence: the emitter numbers variables through term_variables/2,
    # which can list an aliased attributed variable twice on this tree (indices then skip)
    final = canon(lst(fin[1]))
    comps = conv_comps(fin[2])
    comps3 = conv_comps(fin[3])
    return {"fail_at": None, "logs": logs, "final": final, "comps": comps, "comps3": comps3}


def conv_comps(t):
    if isinstance(t, tuple) and t[0] == "exc":
        return ("exc", px.formal_sig(terms_formal(t[1])))
    return sorted((tuple(lst(x)) for x in lst(t)), key=repr)


def terms_formal(e):
    from vx.core.terms import error_formal
    return error_formal(e)


def touches(seq):
    """non-trivial: some post precedes a binding that shares a variable with it"""
    pv = {"d1": "XY", "d2": "X", "d3": "XY", "f1": "X", "f2": "XY", "w1": "XY", "w2": "XY", "w3": "X", "w4": "XY",
          "d4": "XY", "d5": "XZ", "d6": "XZ", "d7": "XYZ", "d8": "YZ"}
    bv = {"b1": "X", "b2": "X", "b3": "Y", "b4": "Y", "b5": "XY", "b6": "YZ", "b7": "Z", "c1": "Y", "c2": "Z", "c3": "Z"}
    seen = set()
    zlink = False
    for e in seq:
        if e in POSTS:
            seen |= set(pv[e])
        else:
            vs = set(bv[e])
            if seen & vs or (zlink and "Z" in vs and "Y" in seen):
                return True
            if e == "b6":
                zlink = True
    return False


def goal_vars(pid, s):
    """variables (under substitution s) the suspended goal of post pid waits on"""
    kind, _, data = POSTS[pid]
    if kind == "freeze":
        return set(term_vars(data[0], s, []))
    return set(term_vars(data, s, []))


def explain_wake(seq, i, pid, exp_n, obs_n, mlog=None):
    """tag naming the known mechanism behind a wrong wake count of post `pid` inside event i
    (0-based), or 'unexplained'. The tags are deliberately narrow: each names one root cause."""
    e = seq[i]
    kind = POSTS[pid][0]
    before = seq[:i]
    pre = Store()
    try:
        for x in before:
            pre.event(x)
    except Fail:
        return "unexplained"
    if obs_n > exp_n:
        # (a) dif/2 decides with (\=)/2 on the live attributed variables; the trial unification
        # runs suspended goals of the variables it binds. Happens at a dif post and whenever a
        # pending dif is re-posted by dif's verify_attributes (a binding that touches the dif).
        post = Store()
        post.s, post.difs, post.susp = dict(pre.s), list(pre.difs), list(pre.susp)
        try:
            post.event(e)
        except Fail:
            pass
        gv = goal_vars(pid, pre.s) | goal_vars(pid, post.s)
        cand = list(pre.difs)
        if e in POSTS and POSTS[e][0] == "dif":
            cand.append(POSTS[e][2])
        for (l, r) in cand:
            dv = set(term_vars(("t", l, r), pre.s, [])) | set(term_vars(("t", l, r), post.s, []))
            if dv & gv:
                return "via-dif-trial-unification"
    if kind == "when" and obs_n > exp_n and exp_n >= 1:
        # (e) the same binding wakes the when/2 goal and a frozen goal that binds another
        # variable of the condition: the nested wake runs the goal, then the outer (stale)
        # reinforce goal runs it again
        if mlog is not None and mlog.get(("f2", "bound"), 0) >= 1 and "X" in goal_vars(pid, pre.s):
            return "nested-wake"
        firsts = [k for k, p in enumerate(before) if p == pid]
        # (b) X = Y while the when/2 goal is suspended on both variables: the two when_lists
        # are appended without removing the duplicate
        if firsts and any(p == "b5" for p in before[firsts[0]:]):
            return "after-alias"
        # (c) term_variables/2 lists an aliased pair of dif-attributed variables twice, so
        # when/2 suspends the goal twice on one variable
        for k, p in enumerate(before):
            if p == "d3" and "b5" in before[k:]:
                return "termvars-dup-after-dif-alias"
    if kind == "when" and obs_n < exp_n and seq.count(pid) > 1:
        # (d) two identical when/2 goals: remove_goal/3 deletes every ==-identical entry
        return "identical-goal-merged"
    return "unexplained"


def judge(seq, obs):
    """-> (outcome label, [violations (sig, expected, observed)])"""
    m = model(seq)
    if "abn" in obs:
        return "abnormal", [("abnormal %s posts=%s" % (obs["abn"], posts_of(seq)), summary_txt(m), obs["abn"])], m
    viols = []
    if m["fail_at"] != obs["fail_at"]:
        ef = "ok" if m["fail_at"] is None else "fail@" + ev_text(seq[m["fail_at"] - 1])
        of = "ok" if obs["fail_at"] is None else "fail@" + ev_text(seq[obs["fail_at"] - 1])
        viols.append(("outcome exp=%s obs=%s posts=%s" % (ef, of, posts_of(seq)), ef, of))
    # wake logs of the events completed in both
    ncmp = min(len(m["logs"]), len(obs["logs"]))
    for i in range(ncmp):
        if m["logs"][i] != obs["logs"][i]:
            keys = sorted(set(m["logs"][i]) | set(obs["logs"][i]))
            for k in keys:
                en, on = m["logs"][i].get(k, 0), obs["logs"][i].get(k, 0)
                if en != on:
                    pid, state = k
                    tag = explain_wake(seq, i, pid, en, on, m["logs"][i])
                    viols.append(("wake %s[%s] at %s exp=%d obs=%d %s" % (POSTS[pid][1].split("(")[0] + "/" + pid, state,
                                                                          ev_text(seq[i]), en, on, tag),
                                  "%d" % en, "%d" % on))
            break  # later events may be consequences of the first difference
    if m["fail_at"] is None and obs["fail_at"] is None:
        if m["final"] != obs["final"]:
            viols.append(("bindings posts=%s" % posts_of(seq), show_final(m["final"]), show_final(obs["final"])))
        if list(m["comps"]) != list(obs["comps"]):
            viols.append(("completions %s posts=%s" % (diffkind(m["comps"], obs["comps"]), posts_of(seq)),
                          show_comps(m["comps"]), show_comps(obs["comps"])))
        if list(m["comps"]) != list(obs["comps3"]):
            viols.append(("residual-goals %s posts=%s" % (diffkind(m["comps"], obs["comps3"]), posts_of(seq)),
                          show_comps(m["comps"]), show_comps(obs["comps3"])))
    # outcome label
    if m["fail_at"] is not None:
        label = "fail@" + ("post" if seq[m["fail_at"] - 1] in POSTS else "bind")
    else:
        nw = sum(sum(c.values()) for c in m["logs"])
        nfree = len(term_vars(("t",) + tuple(m["final"]), {}, []))
        full = len(UNIVERSE) ** nfree
        label = "ok:woken=%d:%s" % (nw, "ground" if nfree == 0 else ("unconstrained" if len(m["comps"]) == full else "residue"))
    return label, viols, m


def diffkind(exp, obs):
    if isinstance(obs, tuple) and obs and obs[0] == "exc":
        return "exception:" + obs[1]
    es, os_ = set(exp), set(obs)
    if es - os_ and os_ - es:
        return "different"
    if es - os_:
        return "missing"
    if os_ - es:
        return "extra"
    return "multiplicity"


def posts_of(seq):
    return "+".join(sorted(e for e in seq if e in POSTS))


def show_term(t):
    if isinstance(t, V):
        return "_%s" % t.n
    try:
        return fmt(t)
    except Exception:
        return repr(t)


def show_final(f):
    if f is None:
        return "none"
    return "[" + ",".join(show_term(t) for t in f) + "]"


def show_comps(cs):
    if cs is None:
        return "none"
    if isinstance(cs, tuple) and cs and cs[0] == "exc":
        return "exc:" + str(cs[1])
    return "[" + ",".join(show_final(c) for c in cs) + "]"


def show_summary(sm):
    if sm[0] == "fail":
        return "fail"
    return "ok final=%s completions=%s woken=%s" % (show_final(sm[1]), show_comps(sm[2]),
                                                    ",".join("%s:%d" % (k[0], n) for k, n in sm[3]))


def summary_txt(m):
    return "fail@%s" % m["fail_at"] if m["fail_at"] is not None else "ok"


def setup(w, tier):
    r = w.consult(HELPERS, persist=True)
    return r


def run_seqs(w, seqs):
    rs = px.run_goals(w, [goal_text(s) for s in seqs])
    return [observe(r, len(s)) for r, s in zip(rs, seqs)]


def add_violation(acc, sig, case, exp, ob):
    """one recorded case per signature and shard (so that no signature is lost to the cap); all are counted"""
    if acc._per_sig[sig] >= 1:
        acc._per_sig[sig] += 1
        acc.nviol += 1
    else:
        acc.violation(sig, case, expected=exp, observed=ob)


def run_shard(w, shard, tier):
    _, idx, n = shard
    acc = px.ShardAcc(max_viol=2000)
    mss = multisets(tier)
    mine = [ms for k, ms in enumerate(mss) if k % n == idx]
    states = 0
    transitions = 0
    for group in px.chunked(mine, 20):
        allseqs = []
        for ms in group:
            ps = perms(ms)
            allseqs.append(ps)
        flat = [s for ps in allseqs for s in ps]
        obs = run_seqs(w, flat)
        k = 0
        for ms, ps in zip(group, allseqs):
            prefixes = set()
            msums = set()
            osums = {}
            explained = False
            for s in ps:
                o = obs[k]
                k += 1
                label, viols, m = judge(s, o)
                acc.case(touches(s), label, sample={"events": [ev_text(e) for e in s], "model": summary_txt(m),
                                                     "woken": [sorted("%s:%d" % (a[0], c) for a, c in lg.items()) for lg in m["logs"]]})
                done = len(s) if m["fail_at"] is None else m["fail_at"]
                if "abn" not in o and o.get("fail_at") is not None:
                    done = o["fail_at"]
                transitions += done
                for j in range(1, done + 1):
                    prefixes.add(s[:j])
                msums.add(summary(m))
                if "abn" not in o:
                    osums.setdefault(summary(o), s)
                for vi, (sig, exp, ob) in enumerate(viols):
                    explained = True
                    add_violation(acc, sig, {"seq": list(s), "which": vi}, exp, ob)
            states += len(prefixes)
            if len(msums) > 1:
                # the direct model itself is order dependent here: oracle (1) does not apply
                acc.extra["model_order_dependent_multisets"] += 1
            elif len(osums) > 1:
                if explained:
                    acc.extra["order_dependent_multisets_explained_by_model_violations"] += 1
                else:
                    a, b = list(osums.items())[:2]
                    acc.violation("perm-disagree posts=%s" % posts_of(ms), {"seq": list(a[1]), "seq2": list(b[1])},
                                  expected=show_summary(a[0]), observed=show_summary(b[0]))
            acc.extra["multisets"] += 1
    acc.states = states
    acc.transitions = transitions
    return acc.result()


def recheck(w, case, tier):
    seq = tuple(case["seq"])
    if "seq2" in case:
        seq2 = tuple(case["seq2"])
        o1, o2 = run_seqs(w, [seq, seq2])
        if "abn" in o1 or "abn" in o2 or summary(o1) != summary(o2):
            return {"sig": "perm-disagree posts=%s" % posts_of(seq), "case": case,
                    "expected": show_summary(summary(o1)) if "abn" not in o1 else o1["abn"],
                    "observed": show_summary(summary(o2)) if "abn" not in o2 else o2["abn"]}
        return None
    o = run_seqs(w, [seq])[0]
    label, viols, m = judge(seq, o)
    if not viols:
        return None
    sig, exp, ob = viols[min(case.get("which", 0), len(viols) - 1)]
    return {"sig": sig, "case": case, "expected": exp, "observed": ob}
