"""Runs one property check end to end: build, explore, re-check violations,
match known findings, write evidence + replay files, print verdict lines."""
import hashlib
import importlib
import json
import os
import re
import subprocess
import sys
import time
from collections import Counter

from . import pool, terms

ROOT = pool.ROOT
EVID = os.environ.get("VX_EVID") or os.path.join(ROOT, "evidence")
REPLAYS = os.environ.get("VX_REPLAYS") or os.path.join(ROOT, "replays")
KNOWN = os.path.join(ROOT, "known_findings.json")

EXIT_OK, EXIT_VIOLATION, EXIT_MACHINERY = 0, 1, 2
MAX_REPORTED = 12  # violation signatures re-checked and reported per run (the rest are counted)


def build(quiet=True, bins=("pworker",)):
    """rebuilds the harness (and with it /repo's lib, hooks on) from the working tree"""
    os.makedirs(pool.WORK, exist_ok=True)
    env = dict(os.environ)
    env["CARGO_TARGET_DIR"] = pool.BUILD
    env["CARGO_NET_OFFLINE"] = "true"
    hdir = os.environ.get("VX_HARNESS") or os.path.join(ROOT, "harness")
    lock = os.path.join(hdir, "Cargo.lock")
    if not os.path.exists(lock):
        import shutil
        shutil.copy("/repo/Cargo.lock", lock)
    t0 = time.time()
    cmd = ["cargo", "build", "--release", "--offline"]
    if bins:
        for b in bins:
            cmd += ["--bin", b]
    else:
        cmd += ["--bins"]
    p = subprocess.run(cmd,
                       cwd=hdir, env=env,
                       stdout=subprocess.PIPE, stderr=subprocess.STDOUT)
    if p.returncode != 0:
        sys.stdout.write(p.stdout.decode("utf-8", "replace")[-6000:])
        print("MACHINERY: harness build failed")
        return False
    if not quiet:
        print("build ok in %.1fs" % (time.time() - t0))
    return True


def git_rev():
    try:
        r = subprocess.run(["git", "-C", "/repo", "rev-parse", "--short", "HEAD"],
                           capture_output=True, text=True).stdout.strip()
        d = subprocess.run(["git", "-C", "/repo", "status", "--porcelain", "-uno"],
                           capture_output=True, text=True).stdout.strip()
        return r + ("+dirty" if d else "")
    except Exception:
        return "unknown"


def load_known(prop):
    """known_findings.json plus known_findings.d/*.json (committed, never written at run time)"""
    files = []
    if os.path.exists(KNOWN):
        files.append(KNOWN)
    d = os.path.join(ROOT, "known_findings.d")
    if os.path.isdir(d):
        files += [os.path.join(d, f) for f in sorted(os.listdir(d)) if f.endswith(".json")]
    out = []
    for fn in files:
        with open(fn) as f:
            data = json.load(f)
        out += [e for e in data.get("findings", []) if e.get("property") == prop]
    return out


def match_known(entries, sig):
    for e in entries:
        if e.get("status") != "open":
            continue
        if "sig" in e and e["sig"] == sig:
            return e
        if "sig_re" in e and re.fullmatch(e["sig_re"], sig, re.S):
            return e
    return None


def jsonable(x):
    try:
        json.dumps(x)
        return x
    except TypeError:
        return repr(x)


def write_replay(prop, viol, engine, tier="quick"):
    d = os.path.join(REPLAYS, prop)
    os.makedirs(d, exist_ok=True)
    body = {"property": prop, "engine": engine, "tier": tier, "sig": viol["sig"],
            "case": jsonable(viol.get("case")), "expected": jsonable(viol.get("expected")),
            "observed": jsonable(viol.get("observed")), "build": git_rev()}
    h = hashlib.sha1(json.dumps([body["sig"], body["case"]], sort_keys=True, default=repr).encode()).hexdigest()[:16]
    path = os.path.join(d, h + ".json")
    with open(path, "w") as f:
        json.dump(body, f, indent=1, default=repr)
    return os.path.relpath(path, ROOT)


def run(prop, tier, replay=None, nproc=None, do_build=True):
    t_start = time.time()
    seed = int(os.environ.get("VERIF_SEED", "0") or 0)
    modname = "vx.props." + prop
    try:
        mod = importlib.import_module(modname)
    except ImportError as e:
        print("MACHINERY: no module for %s: %s" % (prop, e))
        return EXIT_MACHINERY
    if do_build and not build(bins=tuple(getattr(mod, "BINS", ("pworker",)))):
        return EXIT_MACHINERY

    wkwargs = getattr(mod, "WORKER_KWARGS", {})

    if replay:
        return do_replay(mod, prop, replay, wkwargs)

    shards = list(mod.shards(tier))
    if seed:
        # the seed only rotates the visiting order; coverage is unchanged
        k = seed % max(1, len(shards))
        shards = shards[k:] + shards[:k]
    budget = getattr(mod, "BUDGET_S", {}).get(tier)
    deadline = time.time() + budget if budget else None

    tot = Counter()
    outcomes = Counter()
    extra = Counter()
    viols = []
    nviol_total = 0
    samples = []
    machinery = []
    done = 0
    bounds_done = Counter()
    for r in pool.run_sharded(modname, shards, tier, nproc=nproc or getattr(mod, "NPROC", None),
                              wkwargs=wkwargs, deadline=deadline):
        if "machinery" in r:
            machinery.append(r["machinery"])
            continue
        done += 1
        tot["evals"] += r.get("evals", 0)
        tot["nontrivial"] += r.get("nontrivial", 0)
        tot["states"] += r.get("states", 0)
        tot["transitions"] += r.get("transitions", 0)
        outcomes.update(r.get("outcomes", {}))
        extra.update(r.get("extra", {}))
        if "bound" in r:
            bounds_done[r["bound"]] += 1
        vs = r.get("violations", [])
        nviol_total += r.get("nviol", len(vs))
        viols.extend(vs)
        if len(samples) < 6:
            samples.extend(r.get("samples", [])[:2])

    if machinery:
        for m in machinery[:5]:
            print("MACHINERY:", m[:3000])
        return EXIT_MACHINERY

    exhaustive = done == len(shards)

    # vacuity floor
    floor = getattr(mod, "MIN_OUTCOMES", 2)
    if len(outcomes) < floor and not viols:
        print("MACHINERY: vacuous exploration (%d distinct outcomes < %d)" % (len(outcomes), floor))
        return EXIT_MACHINERY

    # ---- triage violations: group by sig, re-check, match known findings
    known = load_known(prop)
    by_sig = {}
    for v in viols:
        by_sig.setdefault(v["sig"], []).append(v)
    new_viol_paths = []
    known_hits = {}
    recheck = getattr(mod, "recheck", None)
    rw = None
    try:
        unreported = 0
        for sig, group in sorted(by_sig.items()):
            k = match_known(known, sig)
            if k is not None:
                known_hits.setdefault(k["id"], [k, 0])
                known_hits[k["id"]][1] += len(group)
                continue
            if len(new_viol_paths) >= MAX_REPORTED:
                unreported += 1
                continue
            v = group[0]
            if recheck is not None:
                # same case must fail the same way twice in a fresh worker
                alts = []
                for attempt in range(2):
                    if getattr(mod, "NEEDS_WORKER", True):
                        rw = pool.Worker(**wkwargs)
                        if hasattr(mod, "setup"):
                            mod.setup(rw, tier)
                    try:
                        v2 = recheck(rw, v["case"], tier)
                    finally:
                        if rw is not None:
                            rw.close()
                            rw = None
                    # a recheck may return one violation or a list (a case can
                    # violate several clauses of a property at once)
                    v2s = [] if v2 is None else (v2 if isinstance(v2, list) else [v2])
                    if any(x["sig"] == sig for x in v2s):
                        alts.append(None)
                    elif v2s:
                        # the case violates the property on a fresh machine too, but in another way
                        # than in the sweep (what the sweep's machine had executed before matters):
                        # the fresh-machine observation is the one reported
                        alts.append(v2s[0])
                    else:
                        print("MACHINERY: violation did not replay deterministically: sig=%r replay=%r"
                              % (sig, [x["sig"] for x in v2s]))
                        return EXIT_MACHINERY
                if alts and alts[0] is not None:
                    if alts[1] is None or alts[1]["sig"] != alts[0]["sig"]:
                        print("MACHINERY: violation did not replay deterministically: sig=%r replays=%r"
                              % (sig, [a and a["sig"] for a in alts]))
                        return EXIT_MACHINERY
                    v = dict(alts[0])
                    v.setdefault("case", group[0]["case"])
                    v["seen_in_sweep_as"] = sig
                    sig = v["sig"]
                    k = match_known(known, sig)
                    if k is not None:
                        known_hits.setdefault(k["id"], [k, 0])
                        known_hits[k["id"]][1] += len(group)
                        continue
                    if any(sig == s0 for s0, _, _ in new_viol_paths):
                        continue
                elif alts and alts[1] is not None:
                    print("MACHINERY: violation did not replay deterministically: sig=%r replays=%r"
                          % (sig, [a and a["sig"] for a in alts]))
                    return EXIT_MACHINERY
            path = write_replay(prop, v, getattr(mod, "ENGINE", "PEX"), tier)
            new_viol_paths.append((sig, path, len(group)))
    finally:
        if rw is not None:
            rw.close()

    if os.environ.get("VX_SIGDUMP"):
        # diagnostic: the complete signature list (the evidence keeps the first 200)
        with open(os.environ["VX_SIGDUMP"], "w") as f:
            json.dump([{"sig": k, "cases": len(v), "known": (match_known(known, k) or {}).get("id"),
                        "case": jsonable(v[0].get("case")), "expected": jsonable(v[0].get("expected")),
                        "observed": jsonable(v[0].get("observed"))}
                       for k, v in sorted(by_sig.items())], f, indent=1, default=repr)

    wall = time.time() - t_start
    level = getattr(mod, "LEVEL", "exploration")
    cov = {
        "evaluations": tot["evals"],
        "distinct_nontrivial": tot["nontrivial"],
        "rule": getattr(mod, "RULE", ""),
        "samples": [jsonable(s) for s in samples[:6]],
        "exhaustive": exhaustive,
        "shards_total": len(shards),
        "shards_completed": done,
        "distinct_outcomes": len(outcomes),
        "outcome_histogram": dict(outcomes.most_common(25)),
        "bound_completed": getattr(mod, "bound_text", lambda t: t)(tier) if exhaustive else "incomplete: %d/%d shards" % (done, len(shards)),
        "violations_total": nviol_total,
        "violation_signatures": len(by_sig),
        "violation_signature_list": [{"sig": k, "cases": len(v), "known": (match_known(known, k) or {}).get("id")} for k, v in sorted(by_sig.items())][:200],
        "known_findings_hit": {k: n for k, (e, n) in known_hits.items()},
        "build": git_rev(),
    }
    for k, v in extra.items():
        cov[k] = v
    if tot["states"] or level == "model_checking" and tot["transitions"]:
        cov["states"] = tot["states"]
        cov["transitions"] = tot["transitions"]
        cov["traces_validated_against_impl"] = tot["transitions"]
    ev = {
        "property_id": prop, "tier": tier, "seed": seed, "level": level,
        "coverage": cov,
        "assumptions": getattr(mod, "ASSUMPTIONS", []),
        "wall_s": round(wall, 2),
        "violations": len(new_viol_paths),
    }
    os.makedirs(EVID, exist_ok=True)
    with open(os.path.join(EVID, prop + ".json"), "w") as f:
        json.dump(ev, f, indent=1, default=repr)

    print("%s tier=%s evals=%d nontrivial=%d outcomes=%d shards=%d/%d wall=%.1fs"
          % (prop, tier, tot["evals"], tot["nontrivial"], len(outcomes), done, len(shards), wall))
    for kid, (e, n) in sorted(known_hits.items()):
        print("KNOWN-FINDING: property=%s %s [%s, %d cases]" % (prop, e.get("what", ""), kid, n))
    for sig, path, n in new_viol_paths:
        print("  violation sig=%s (%d cases)" % (sig[:300], n))
        print("VIOLATION property=%s replay=%s" % (prop, path))
    if unreported:
        print("  ... and %d further violation signatures (not re-checked; see violation_signatures in the evidence)" % unreported)
    return EXIT_VIOLATION if new_viol_paths else EXIT_OK


def do_replay(mod, prop, path, wkwargs):
    with open(path if os.path.isabs(path) else os.path.join(ROOT, path)) as f:
        body = json.load(f)
    recheck = getattr(mod, "recheck", None)
    if recheck is None:
        print("MACHINERY: %s has no replay support" % prop)
        return EXIT_MACHINERY
    w = None
    if getattr(mod, "NEEDS_WORKER", True):
        w = pool.Worker(**wkwargs)
        if hasattr(mod, "setup"):
            mod.setup(w, body.get("tier", "quick"))
    try:
        v = recheck(w, body["case"], body.get("tier", "quick"))
    finally:
        if w is not None:
            w.close()
    print("case:", json.dumps(body["case"], default=repr)[:2000])
    if isinstance(v, list):
        same = [x for x in v if x["sig"] == body.get("sig")]
        v = same[0] if same else (v[0] if v else None)
    if v is None:
        print("replay: property holds on this case now")
        return EXIT_OK
    print("expected:", json.dumps(jsonable(v.get("expected")), default=repr)[:2000])
    print("observed:", json.dumps(jsonable(v.get("observed")), default=repr)[:2000])
    known = load_known(prop)
    k = match_known(known, v["sig"])
    if k is not None:
        print("KNOWN-FINDING: property=%s %s [%s]" % (prop, k.get("what", ""), k["id"]))
        return EXIT_OK
    print("VIOLATION property=%s replay=%s" % (prop, path))
    return EXIT_VIOLATION
