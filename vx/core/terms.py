"""Abstract Prolog terms on the Python side, source-text formatting, and the
parser for the driver's prefix transport encoding (driver.pl).

Representation
  int / float / Fraction   numbers
  str                      atom
  V(name)                  variable (name is a str or an int index)
  S(text)                  a double-quoted string literal (source side only);
                           on the observation side strings arrive as lists
  tuple (name, a1..an)     compound, n >= 1; list cells are ('.', H, T)
"""
from fractions import Fraction
import math
import re
import sys

if hasattr(sys, "set_int_max_str_digits"):
    sys.set_int_max_str_digits(0)


class V:
    __slots__ = ("n",)

    def __init__(self, n):
        self.n = n

    def __repr__(self):
        return "V(%r)" % (self.n,)

    def __eq__(self, o):
        return isinstance(o, V) and o.n == self.n

    def __hash__(self):
        return hash(("V", self.n))


class S:
    """double-quoted literal in source text"""
    __slots__ = ("s",)

    def __init__(self, s):
        self.s = s

    def __repr__(self):
        return "S(%r)" % (self.s,)

    def __eq__(self, o):
        return isinstance(o, S) and o.s == self.s

    def __hash__(self):
        return hash(("S", self.s))


class Raw:
    """source text inserted verbatim (e.g. an arithmetic expression route)"""
    __slots__ = ("t",)

    def __init__(self, t):
        self.t = t

    def __repr__(self):
        return "Raw(%r)" % (self.t,)

    def __eq__(self, o):
        return isinstance(o, Raw) and o.t == self.t

    def __hash__(self):
        return hash(("Raw", self.t))


NIL = "[]"


def mklist(elems, tail=NIL):
    t = tail
    for e in reversed(list(elems)):
        t = (".", e, t)
    return t


def unlist(t):
    """(elems, tail)"""
    out = []
    while isinstance(t, tuple) and len(t) == 3 and t[0] == ".":
        out.append(t[1])
        t = t[2]
    return out, t


def is_proper_list(t):
    return unlist(t)[1] == NIL


def chars_list(s, tail=NIL):
    return mklist(list(s), tail)


def list_to_str(t):
    """if t is a proper list of one-char atoms return the str else None"""
    el, tail = unlist(t)
    if tail != NIL:
        return None
    for e in el:
        if not (isinstance(e, str) and len(e) == 1):
            return None
    return "".join(el)


# ---------------------------------------------------------------------------
# source text

_SOLO = {"[]", "{}", "!", ";"}
_ALNUM = re.compile(r"^[a-z][A-Za-z0-9_]*$")
_SYM = set("+-*/\\^<>=~:.?@#&$")


def quote_atom(a):
    """conservative quoting for *source* text (always readable)"""
    if a in _SOLO or _ALNUM.match(a):
        return a
    if a and all(c in _SYM for c in a) and a != "." and not a.startswith("/*"):
        return a
    out = ["'"]
    for c in a:
        o = ord(c)
        if c == "'":
            out.append("\\'")
        elif c == "\\":
            out.append("\\\\")
        elif c == "\n":
            out.append("\\n")
        elif c == "\t":
            out.append("\\t")
        elif o < 32 or 127 <= o < 160:
            out.append("\\x%x\\" % o)
        else:
            out.append(c)
    out.append("'")
    return "".join(out)


def quote_string(s):
    out = ['"']
    for c in s:
        o = ord(c)
        if c == '"':
            out.append('\\"')
        elif c == "\\":
            out.append("\\\\")
        elif c == "\n":
            out.append("\\n")
        elif c == "\t":
            out.append("\\t")
        elif o < 32 or 127 <= o < 160:
            out.append("\\x%x\\" % o)
        else:
            out.append(c)
    out.append('"')
    return "".join(out)


def fmt_float(f):
    if f != f or f in (math.inf, -math.inf):
        raise ValueError("non-finite float has no source text")
    r = repr(float(f))
    if "e" in r or "E" in r:
        m, e = r.lower().split("e")
        if "." not in m:
            m += ".0"
        r = m + "e" + e
    elif "." not in r:
        r += ".0"
    return r


def fmt_num(n):
    if isinstance(n, bool):
        raise TypeError
    if isinstance(n, int):
        return str(n) if n >= 0 else "(%d)" % n
    if isinstance(n, Fraction):
        if n.denominator == 1:
            return fmt_num(n.numerator)
        return "(%d rdiv %d)" % (n.numerator, n.denominator)
    if isinstance(n, float):
        if math.copysign(1.0, n) < 0 and n == 0.0:
            return "(0.0 * -1)"
        r = fmt_float(n)
        return r if n >= 0 else "(%s)" % r
    raise TypeError(n)


def fmt(t):
    """source text in functional notation (operators never relied upon,
    except that negative numbers are parenthesised and rationals are written
    as N rdiv D, which is only a number inside arithmetic)"""
    if isinstance(t, V):
        n = t.n
        return n if isinstance(n, str) else "_G%d" % n
    if isinstance(t, Raw):
        return t.t
    if isinstance(t, S):
        return quote_string(t.s)
    if isinstance(t, str):
        return quote_atom(t)
    if isinstance(t, (int, float, Fraction)):
        return fmt_num(t)
    if isinstance(t, tuple):
        if len(t) == 3 and t[0] == ".":
            el, tail = unlist(t)
            s = "[" + ",".join(fmt_arg(e) for e in el)
            if tail != NIL:
                s += "|" + fmt_arg(tail)
            return s + "]"
        f = t[0]
        return quote_atom(f) + "(" + ",".join(fmt_arg(a) for a in t[1:]) + ")"
    raise TypeError(repr(t))


def fmt_arg(t):
    # an atom that is an operator must be bracketed as an argument
    if isinstance(t, str) and not _ALNUM.match(t) and t not in ("[]", "{}"):
        return "(" + quote_atom(t) + ")"
    if isinstance(t, str) and t in _OPATOMS:
        return "(" + t + ")"
    return fmt(t)


_OPATOMS = {"is", "mod", "rem", "div", "rdiv", "xor", "dynamic", "discontiguous",
            "initialization", "meta_predicate", "module_transparent", "multifile",
            "public", "table", "volatile", "thread_local"}


# ---------------------------------------------------------------------------
# transport parser

class TransportError(Exception):
    pass


def parse_term(s, i=0):
    """parse one prefix-encoded term from s at i -> (term, next index)"""
    # iterative with an explicit stack to stay clear of the recursion limit
    stack = []  # frames: [kind, remaining, items, extra]
    result = None
    n = len(s)
    while True:
        if i >= n:
            raise TransportError("truncated term")
        c = s[i]
        val = _NOVAL
        if c == "v":
            j = s.index(";", i)
            val = V(int(s[i + 1:j]))
            i = j + 1
        elif c == "i":
            j = s.index(";", i)
            val = int(s[i + 1:j])
            i = j + 1
        elif c == "f":
            j = s.index(";", i)
            txt = s[i + 1:j]
            try:
                val = float(txt)
            except ValueError:
                raise TransportError("bad float %r" % txt)
            i = j + 1
        elif c == "r":
            j = s.index(";", i)
            a, b = s[i + 1:j].split("/")
            val = Fraction(int(a), int(b))
            i = j + 1
        elif c == "a":
            j = s.index(":", i)
            ln = int(s[i + 1:j])
            val = s[j + 1:j + 1 + ln]
            if len(val) != ln:
                raise TransportError("truncated atom")
            i = j + 1 + ln
        elif c == "y":
            val = CYCLIC
            i += 2
        elif c == "c":
            j = s.index(";", i)
            ar = int(s[i + 1:j])
            i = j + 1
            # functor name atom follows
            if s[i] != "a":
                raise TransportError("functor name expected")
            j = s.index(":", i)
            ln = int(s[i + 1:j])
            name = s[j + 1:j + 1 + ln]
            i = j + 1 + ln
            if ar == 0:
                val = (name,)
            else:
                stack.append(["c", ar, [name]])
                continue
        elif c == "l":
            j = s.index(";", i)
            cnt = int(s[i + 1:j])
            i = j + 1
            stack.append(["l", cnt + 1, []])
            continue
        else:
            raise TransportError("bad tag %r at %d in %r" % (c, i, s[max(0, i - 20):i + 20]))
        # deliver val
        while True:
            if not stack:
                return val, i
            fr = stack[-1]
            fr[2].append(val)
            fr[1] -= 1
            if fr[1] > 0:
                break
            stack.pop()
            if fr[0] == "c":
                val = tuple(fr[2])
            else:
                items = fr[2]
                val = mklist(items[:-1], items[-1])


class _NoVal:
    pass


_NOVAL = _NoVal()


class _Cyclic:
    def __repr__(self):
        return "CYCLIC"


CYCLIC = _Cyclic()


def parse_records(out):
    """split a case's captured output into (free_text, [(kind, payload)]).
    payload is a parsed term for kinds S, X, O and a str for kind E."""
    recs = []
    free = []
    i = 0
    n = len(out)
    while i < n:
        j = out.find("\x1e", i)
        if j < 0:
            free.append(out[i:])
            break
        free.append(out[i:j])
        if j + 2 >= n:
            raise TransportError("truncated record header")
        kind = out[j + 1]
        if out[j + 2] != " ":
            raise TransportError("bad record header")
        k = j + 3
        if kind == "E":
            e = out.find("\x1f", k)
            if e < 0:
                raise TransportError("unterminated E record")
            recs.append((kind, out[k:e]))
            i = e + 1
        else:
            try:
                t, e = parse_term(out, k)
            except (ValueError, IndexError) as ex:
                raise TransportError("term parse: %s" % ex)
            if e >= n or out[e] != "\x1f":
                raise TransportError("record not terminated")
            recs.append((kind, t))
            i = e + 1
    text = "".join(free)
    # arming markers are not part of the free text
    text = re.sub("\x1d[A-Z0-9]+\x1d", "", text)
    return text, recs


def bindings(sol):
    """S-record payload (list of Name=Value) -> dict"""
    el, _ = unlist(sol)
    d = {}
    for e in el:
        if isinstance(e, tuple) and e[0] == "=" and len(e) == 3:
            d[e[1]] = e[2]
    return d


def error_formal(x):
    """X-record payload -> the formal of error(Formal, Ctx), else ('ball', x)"""
    if isinstance(x, tuple) and len(x) == 3 and x[0] == "error":
        return x[1]
    return ("$ball", x)


def show(t):
    """readable text for evidence/replay files"""
    try:
        return fmt(t)
    except Exception:
        return repr(t)
