"""FLT engine: fault / interrupt point enumeration shared by C30 and C31.

A run: arm the hook counter (the driver prints ARM / W0 / W1 / DISARM markers
around the workload, vx_flt/2 in driver.pl), execute the workload with the
n-th counted event (dispatched instruction / heap growth attempt) turned into
a fault, then execute the workload again unarmed plus a battery of follow-up
goals on the same machine and compare them with reference observations.
"""
from vx.core import pool, px, terms

CHUNK = 200


class Flt:
    def __init__(self, prop, kind, helpers, workloads, followups, is_expected_ball, points,
                 arm_opts=None, fault_name="fault", accept_completed=False, fine_grained=()):
        self.prop = prop
        self.kind = kind
        self.helpers = helpers
        self.workloads = workloads      # [(name, goal text)]
        self.followups = followups
        self.is_expected_ball = is_expected_ball
        self.points = points            # f(i, N, w0, w1, tier) -> [n]
        self.arm_opts = arm_opts or {}
        self.fault_name = fault_name
        self.accept_completed = accept_completed
        self.fine_grained = set(fine_grained)

    # -- plumbing ---------------------------------------------------------
    def setup(self, w, tier):
        r = w.consult(self.helpers, persist=True)
        if "error" in r.get("out", "") or "panic" in r:
            raise pool.MachineryError("%s helpers failed to load: %r" % (self.prop, r))

    def goal(self, i):
        return self.workloads[i][1]

    def arm(self, w, n):
        req = {"op": "arm", "kind": self.kind, "n": n}
        req.update(self.arm_opts)
        w.rpc(req)

    def count(self, w, i):
        # warm-up: first-time effects (atoms interned, goals expanded and cached)
        # must not be part of the count
        r0 = px.run_goals(w, [self.goal(i)])[0]
        if r0.abn:
            raise pool.MachineryError("%s: warm-up run abnormal: %r" % (self.prop, r0))
        self.arm(w, 2 ** 62)
        r = px.run_goals(w, [self.goal(i)])[0]
        rep = w.rpc({"op": "arm_report"})
        if r.abn or rep.get("total") is None or not rep.get("saw_arm"):
            raise pool.MachineryError("%s: counting run of workload %s failed: %r %r"
                                      % (self.prop, self.workloads[i][0], r, rep))
        return rep["total"], rep.get("w0"), rep.get("w1"), r

    def shards(self, tier):
        w = pool.Worker()
        try:
            self.setup(w, tier)
            sh = []
            for i in range(len(self.workloads)):
                N, w0, w1, _ = self.count(w, i)
                pts = self.points(i, N, w0, w1, tier)
                for k in range(0, len(pts), CHUNK):
                    sh.append([i, N, w0, w1, pts[k:k + CHUNK]])
            return sh
        finally:
            w.close()

    def reference(self, w, i):
        rs = px.run_goals(w, [self.goal(i)] + self.followups)
        for r in rs:
            if r.abn:
                raise pool.MachineryError("%s: reference run abnormal: %r" % (self.prop, r))
        return [obs_key(r) for r in rs]

    # -- one fault run ----------------------------------------------------
    def one_run(self, w, i, n, ref):
        """-> (label, violation kind or None, observed)"""
        self.arm(w, n)
        r = px.run_goals(w, [self.goal(i)])[0]
        rep = w.rpc({"op": "arm_report"})
        if r.abn:
            return "abnormal", "workload " + r.abn, r.abn
        fol = px.run_goals(w, [self.goal(i)] + self.followups)
        if r.obs and isinstance(r.obs[0], tuple) and r.obs[0][0] == "ball":
            delivered = "caught" if self.is_expected_ball(r.obs[0][1]) else "other_ball"
        elif r.status == "exc":
            delivered = "escaped" if self.is_expected_ball(r.exc) else "other_exc"
        elif r.obs and (r.obs[0] == "completed" or (isinstance(r.obs[0], tuple) and r.obs[0][0] == "completed")):
            delivered = "completed"
        else:
            delivered = "none"
        if rep.get("interrupt_flag_left_set"):
            return delivered, "interrupt flag left set", repr(rep)
        if delivered in ("other_ball", "other_exc"):
            return delivered, "wrong ball", repr(r.obs or r.exc)[:300]
        if delivered == "none":
            return delivered, "no result record", repr(r)[:300]
        if delivered == "completed":
            if self.accept_completed:
                # the workload may legitimately survive the fault (e.g. a failed
                # growth retried after a reservation): its answer must then be right
                if obs_key(r) != ref[0]:
                    return delivered, "completed with a wrong answer", {"got": repr(obs_key(r))[:400], "want": repr(ref[0])[:400]}
            else:
                return delivered, "%s not delivered (completed)" % self.fault_name, repr(r)[:300]
        for k, (fr, want) in enumerate(zip(fol, ref)):
            got = obs_key(fr)
            if got != want:
                what = "workload rerun" if k == 0 else "followup %d" % k
                if fr.abn:
                    return delivered, "%s %s" % (what, fr.abn), fr.abn
                return delivered, "%s differs" % what, {"got": repr(got)[:400], "want": repr(want)[:400]}
        return delivered, None, None

    def run_shard(self, w, shard, tier):
        i, N, w0, w1, pts = shard
        acc = px.ShardAcc()
        w.new_machine()
        ref = self.reference(w, i)
        name = self.workloads[i][0]
        N2, w0, w1, _ = self.count(w, i)
        if N2 != N:
            raise pool.MachineryError("%s: workload %s counts %d events here but %d when the shards were cut"
                                      % (self.prop, name, N2, N))
        hist = []    # fault points run on this machine since it was built
        for n in pts:
            label, vk, obs = self.one_run(w, i, n, ref)
            ph = phase(n, w0, w1)
            acc.case(ph == "interior", "%s/%s" % (ph, label),
                     sample={"workload": name, "n": n, "of": N, "phase": ph, "result": label})
            if vk:
                if name in self.fine_grained:
                    # workloads whose known defects sit in a few-instruction window: the
                    # signature carries the offset from the workload's first instruction
                    vk = "%s @+%d" % (vk, n - (w0 or 0))
                # "after": the faults this machine had already survived; a violation that needs
                # them (state left behind by an earlier, correctly delivered fault) is replayed
                # with them when it does not show on a fresh machine
                acc.violation("%s %s: %s" % (name, ph, vk), {"workload": name, "n": n, "after": hist[-3:]},
                              expected="the documented error, clean follow-ups", observed=obs)
                w.new_machine()
                ref = self.reference(w, i)
                self.count(w, i)
                hist = []
            else:
                hist.append(n)
        return acc.result()

    def recheck(self, w, case, tier):
        i = [k for k, x in enumerate(self.workloads) if x[0] == case["workload"]][0]
        w.new_machine()
        N, w0, w1, _ = self.count(w, i)
        ref = self.reference(w, i)
        label, vk, obs = self.one_run(w, i, case["n"], ref)
        if not vk and case.get("after"):
            w.new_machine()
            N, w0, w1, _ = self.count(w, i)
            ref = self.reference(w, i)
            for m in case["after"]:
                self.one_run(w, i, m, ref)
            label, vk, obs = self.one_run(w, i, case["n"], ref)
        if vk and case["workload"] in self.fine_grained:
            vk = "%s @+%d" % (vk, case["n"] - (w0 or 0))
        if vk:
            return {"sig": "%s %s: %s" % (case["workload"], phase(case["n"], w0, w1), vk), "case": case, "observed": obs}
        return None


def obs_key(r):
    if r.abn:
        return ("abn", r.abn)
    return (r.status, repr(r.sols), repr(r.obs), repr(r.exc))


def phase(n, w0, w1):
    if w0 is not None and n < w0:
        return "prologue"
    if w1 is not None and n >= w1:
        return "epilogue"
    return "interior"
