"""Worker processes (pworker) and the sharded parallel runner."""
import json
import os
import select
import signal
import subprocess
import sys
import time
import multiprocessing as mp

from . import terms

ROOT = os.path.dirname(os.path.dirname(os.path.dirname(os.path.abspath(__file__))))
BUILD = os.environ.get("VX_BUILD") or os.path.join(ROOT, ".build")
PWORKER = os.path.join(BUILD, "release", "pworker")
DRIVER = os.path.join(ROOT, "vx", "prolog", "driver.pl")
WORK = os.path.join(ROOT, "work")


class WorkerDied(Exception):
    def __init__(self, how, rc=None):
        Exception.__init__(self, how)
        self.how = how
        self.rc = rc


class MachineryError(Exception):
    """the transport or the harness failed; never a verdict"""


class Worker:
    """one pworker subprocess"""

    def __init__(self, driver=DRIVER, horizon=20.0, extra_env=None, binary=PWORKER):
        self.driver = driver
        self.horizon = horizon
        self.binary = binary
        self.extra_env = extra_env or {}
        self.setup_consults = []  # (text, module, mode) re-applied after rebuilds
        self.setup_cases = []     # driver commands re-applied after rebuilds
        self.p = None
        self.restarts = 0
        self.stray = []   # non-protocol lines seen on the worker's stdout
        self.start()

    def start(self):
        env = dict(os.environ)
        env.update(self.extra_env)
        env.setdefault("RUST_BACKTRACE", "0")
        self.p = subprocess.Popen([self.binary, self.driver], stdin=subprocess.PIPE,
                                  stdout=subprocess.PIPE, stderr=subprocess.DEVNULL,
                                  env=env, cwd=WORK, bufsize=0)
        self.buf = b""
        r = self._read(60.0)
        if not r.get("ready"):
            raise MachineryError("worker did not start: %r" % (r,))
        if r.get("boot_out", "").strip() or r.get("boot_err", "").strip():
            raise MachineryError("driver failed to load: %r %r" % (r.get("boot_out"), r.get("boot_err")))
        self._reapply_setup()
        if self.extra_env.get("PW_EXACT"):
            # exact reservations + one-cell growth for everything this worker runs (C33's corpus family)
            self._rpc({"op": "tight", "on": True, "exact": True}, 30.0)

    def _reapply_setup(self):
        for (text, module, mode) in self.setup_consults:
            self._rpc({"op": "consult", "text": text, "module": module, "mode": mode}, 120.0)
        if self.setup_cases:
            self._rpc({"op": "q", "cases": self.setup_cases}, 120.0)

    def close(self):
        if self.p is not None:
            try:
                self.p.stdin.write(b'{"op":"quit"}\n')
                self.p.stdin.flush()
            except Exception:
                pass
            try:
                self.p.wait(timeout=2)
            except Exception:
                self.kill()
            self.p = None

    def kill(self):
        if self.p is not None:
            try:
                self.p.kill()
                self.p.wait(timeout=5)
            except Exception:
                pass
            self.p = None

    def restart(self):
        self.kill()
        self.restarts += 1
        self.start()

    def _read(self, timeout):
        deadline = time.time() + timeout
        fd = self.p.stdout.fileno()
        while b"\n" not in self.buf:
            left = deadline - time.time()
            if left <= 0:
                raise WorkerDied("hang")
            r, _, _ = select.select([fd], [], [], left)
            if not r:
                raise WorkerDied("hang")
            chunk = os.read(fd, 1 << 20)
            if not chunk:
                rc = self.p.wait()
                raise WorkerDied("exit", rc)
            self.buf += chunk
        line, self.buf = self.buf.split(b"\n", 1)
        # the machine itself may print to the real stdout (loader warnings go
        # through println!): anything that is not a JSON object is skipped
        try:
            d = json.loads(line.decode("utf-8", "replace"))
            if isinstance(d, dict):
                return d
        except ValueError:
            pass
        self.stray.append(line[:200])
        return self._read(max(0.1, deadline - time.time()))

    def _rpc(self, req, timeout):
        try:
            self.p.stdin.write((json.dumps(req) + "\n").encode("utf-8"))
            self.p.stdin.flush()
        except (BrokenPipeError, OSError):
            rc = self.p.wait()
            raise WorkerDied("exit", rc)
        return self._read(timeout)

    # -- public -----------------------------------------------------------
    def consult(self, text, module="user", mode="consult", persist=False, timeout=300.0):
        r = self._rpc({"op": "consult", "text": text, "module": module, "mode": mode}, timeout)
        if persist:
            self.setup_consults.append((text, module, mode))
        return r

    def new_machine(self):
        r = self._rpc({"op": "new_machine"}, 120.0)
        self._reapply_setup()
        return r

    def rpc(self, req, timeout=None):
        return self._rpc(req, timeout or self.horizon)

    def put_file(self, path, data):
        import base64
        return self._rpc({"op": "put_file", "path": path,
                          "b64": base64.b64encode(data).decode()}, 30.0)

    def q(self, cases, op="q", per_case_horizon=None):
        """Run driver commands. Returns one dict per case:
        {"o": text, "e": stderr text, "panic":..., "where":..., "crash": rc, "hang": True}.
        A crash or hang is attributed to a single case by re-running the batch
        one case at a time in a fresh worker."""
        if not cases:
            return []
        key = "cases" if op == "q" else "queries"
        horizon = self.horizon + 0.002 * len(cases)
        try:
            r = self._rpc({"op": op, key: cases}, horizon)
            res = r["r"]
            # a panic rebuilt the machine without the setup: redo the tail
            for i, x in enumerate(res):
                if "panic" in x:
                    self._reapply_setup()
                    if i + 1 < len(cases):
                        res[i + 1:] = self.q(cases[i + 1:], op)
                    break
            return res
        except WorkerDied:
            self.restart()
        if len(cases) == 1:
            return [self._single(cases[0], op, per_case_horizon or self.horizon)]
        # bisect sequentially: one at a time
        out = []
        for c in cases:
            out.append(self._single(c, op, per_case_horizon or self.horizon))
        return out

    def _single(self, case, op, horizon):
        key = "cases" if op == "q" else "queries"
        try:
            r = self._rpc({"op": op, key: [case]}, horizon)
            x = r["r"][0]
            if "panic" in x:
                self._reapply_setup()
            return x
        except WorkerDied as d:
            self.restart()
            if d.how == "hang":
                return {"o": "", "hang": True}
            return {"o": "", "crash": d.rc}


def abnormal(res):
    """a transport-level abnormal outcome of one case, or None"""
    if "panic" in res:
        return "panic"
    if "crash" in res:
        return "crash"
    if res.get("hang"):
        return "hang"
    return None


def abnormal_sig(res):
    if "panic" in res:
        where = res.get("where", "")
        fname = where.rsplit(":", 1)[0]
        # repository-relative path, wherever the tree is checked out
        k = fname.find("src/")
        if k > 0 and "/.cargo/" not in fname:
            fname = fname[k:]
        msg = res["panic"]
        # numbers vary with heap layout: keep the message skeleton only
        import re
        msg = re.sub(r"\d+", "N", msg)[:120]
        return "panic@%s: %s" % (fname, msg)
    if "crash" in res:
        return "crash rc=%s" % res["crash"]
    if res.get("hang"):
        return "hang"
    return None


# ---------------------------------------------------------------------------
# sharded parallel execution

_worker = None
_module = None


def _get_worker(kwargs):
    global _worker
    if _worker is None:
        _worker = Worker(**kwargs)
    return _worker


def _proc_init():
    signal.signal(signal.SIGINT, signal.SIG_IGN)


def _run_one(args):
    modname, shard, tier, wkwargs = args
    import importlib
    global _module, _worker
    if _module is None or _module.__name__ != modname:
        _module = importlib.import_module(modname)
    need_worker = getattr(_module, "NEEDS_WORKER", True)
    w = None
    try:
        if need_worker:
            w = _get_worker(wkwargs)
            if getattr(w, "_setup_for", None) != modname:
                if hasattr(_module, "setup"):
                    _module.setup(w, tier)
                w._setup_for = modname
        t0 = time.time()
        res = _module.run_shard(w, shard, tier)
        res["wall"] = time.time() - t0
        return res
    except MachineryError as e:
        return {"machinery": "%s: %s" % (type(e).__name__, e)}
    except terms.TransportError as e:
        return {"machinery": "TransportError: %s" % e}
    except WorkerDied as e:
        if _worker is not None:
            _worker.kill()
            _worker = None
        return {"machinery": "WorkerDied outside a case: %s rc=%s shard=%r" % (e.how, e.rc, shard)}
    except Exception as e:  # a bug in the machinery
        import traceback
        return {"machinery": "exception in shard %r: %s" % (shard, traceback.format_exc())}


def _shutdown(_):
    global _worker
    if _worker is not None:
        _worker.close()
        _worker = None
    return True


def run_sharded(modname, shards, tier, nproc=None, wkwargs=None, progress=None, deadline=None):
    """Runs module.run_shard(worker, shard, tier) for all shards on a process
    pool. Yields results in completion order. Stops early if deadline passes
    (remaining shards are reported as skipped by the caller)."""
    nproc = nproc or min(16, os.cpu_count() or 4)
    wkwargs = wkwargs or {}
    ctx = mp.get_context("fork")
    pool = ctx.Pool(nproc, initializer=_proc_init)
    try:
        it = pool.imap_unordered(_run_one, [(modname, s, tier, wkwargs) for s in shards], chunksize=1)
        done = 0
        for r in it:
            done += 1
            yield r
            if deadline is not None and time.time() > deadline:
                break
    finally:
        try:
            pool.map(_shutdown, range(nproc * 2), chunksize=1)
        except Exception:
            pass
        pool.terminate()
        pool.join()
