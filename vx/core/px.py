"""Helpers shared by the Prolog-level property modules (engine PEX)."""
from collections import Counter

from . import pool, terms
from .terms import V, S, Raw, fmt, mklist, unlist, NIL


class Res:
    """parsed observation of one driver command"""
    __slots__ = ("text", "sols", "obs", "status", "exc", "abn", "raw")

    def __init__(self):
        self.text = ""
        self.sols = []     # list of dict name -> term
        self.obs = []      # O records
        self.status = None  # 'done' | 'cap' | 'exc' | 'failed' | None (abnormal)
        self.exc = None    # the ball if status == 'exc'
        self.abn = None    # abnormal signature (panic/crash/hang)
        self.raw = None

    def outcome(self):
        """compact, comparable summary"""
        if self.abn:
            return ("abn", self.abn)
        if self.status == "exc":
            return ("exc", terms.error_formal(self.exc), tuple(tuple(sorted(s.items(), key=lambda kv: kv[0])) for s in self.sols))
        return (self.status, tuple(tuple(sorted(s.items(), key=lambda kv: kv[0])) for s in self.sols))

    def formal(self):
        return terms.error_formal(self.exc) if self.status == "exc" else None

    def __repr__(self):
        return "Res(%r,%r,%r,%r)" % (self.status, self.sols, self.exc, self.abn)


def parse_res(x):
    r = Res()
    r.raw = x
    a = pool.abnormal_sig(x)
    if a:
        r.abn = a
        return r
    text, recs = terms.parse_records(x.get("o", ""))
    r.text = text
    for kind, payload in recs:
        if kind == "S":
            r.sols.append(terms.bindings(payload))
        elif kind == "O":
            r.obs.append(payload)
        elif kind == "E":
            r.status = payload
        elif kind == "X":
            r.status = "exc"
            r.exc = payload
    if r.status is None:
        # the query returned to the host normally (no panic, crash or hang) but the driver never
        # wrote its closing record: the goal took the driver's own control flow with it (never
        # seen on a tree where catch/3 and call/N work). An abnormal ending of this case, not a
        # transport problem.
        r.abn = "no-status: the query ended without the driver's status record (%d solution records)" % len(r.sols)
        return r
    return r


def split_multi(x):
    """the observation of a multi([...]) command -> one Res per goal (records are
    cut after each status record)"""
    a = pool.abnormal_sig(x)
    if a:
        r = Res()
        r.abn = a
        return [r]
    text, recs = terms.parse_records(x.get("o", ""))
    out, cur = [], Res()
    for kind, payload in recs:
        if kind == "S":
            cur.sols.append(terms.bindings(payload))
        elif kind == "O":
            cur.obs.append(payload)
        elif kind == "E":
            cur.status = payload
            out.append(cur)
            cur = Res()
        elif kind == "X":
            cur.status = "exc"
            cur.exc = payload
            out.append(cur)
            cur = Res()
    return out


def run_goals(worker, texts, chunk=400):
    """texts: driver command texts (without the final ' .'). -> [Res]"""
    out = []
    for i in range(0, len(texts), chunk):
        part = [t + " ." for t in texts[i:i + chunk]]
        for x in worker.q(part):
            out.append(parse_res(x))
    return out


def formal_class(f):
    """error formal -> class name, e.g. type_error(integer, a) -> 'type_error'"""
    if isinstance(f, tuple):
        return f[0]
    return f


def formal_sig(f):
    """error formal -> short stable text (culprit dropped for long terms)"""
    if isinstance(f, tuple):
        if f[0] in ("type_error", "domain_error", "existence_error", "permission_error",
                    "representation_error", "evaluation_error", "resource_error", "syntax_error"):
            return "%s(%s)" % (f[0], ",".join(terms.show(a) if not isinstance(a, tuple) else a[0] + "/.." for a in f[1:-1] or f[1:2]))
        return f[0]
    return str(f)


class ShardAcc:
    """accumulates the result dict a run_shard must return"""

    def __init__(self, max_viol=40):
        self.evals = 0
        self.nontrivial = 0
        self.outcomes = Counter()
        self.violations = []
        self.nviol = 0
        self.samples = []
        self.extra = Counter()
        self.max_viol = max_viol
        self.states = 0
        self.transitions = 0
        self._per_sig = Counter()

    def case(self, nontrivial, outcome, sample=None):
        self.evals += 1
        if nontrivial:
            self.nontrivial += 1
        self.outcomes[outcome] += 1
        if sample is not None and len(self.samples) < 3:
            self.samples.append(sample)

    def violation(self, sig, case, expected=None, observed=None):
        self.nviol += 1
        self._per_sig[sig] += 1
        if self._per_sig[sig] == 1 or (self._per_sig[sig] <= 3 and len(self.violations) < self.max_viol):
            self.violations.append({"sig": sig, "case": case,
                                    "expected": _j(expected), "observed": _j(observed)})

    def result(self):
        d = {"evals": self.evals, "nontrivial": self.nontrivial,
             "outcomes": dict(self.outcomes), "violations": self.violations,
             "nviol": self.nviol, "samples": self.samples, "extra": dict(self.extra)}
        if self.states or self.transitions:
            d["states"] = self.states
            d["transitions"] = self.transitions
        return d


def _j(x):
    import json
    try:
        json.dumps(x)
        return x
    except TypeError:
        return repr(x)


def chunked(seq, n):
    buf = []
    for x in seq:
        buf.append(x)
        if len(buf) >= n:
            yield buf
            buf = []
    if buf:
        yield buf
