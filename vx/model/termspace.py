"""Shared abstract-term space TERM(k) and the representation routes of DESIGN §2.3.

Abstract terms use the vx.core.terms representation (atoms str, numbers
int/float/Fraction, variables V(name), compounds tuples, list cells
('.', H, T)).  A *string* is not a separate kind of abstract term: it is the
list of one-character atoms it denotes.  Which heap encoding a term gets is
decided by the *route* used to realise it in a goal:

  lit    written literally; lists in bracket notation (the reader compacts a
         prefix of one-char atoms into a partial string)
  dq     like lit, but every proper non-empty list of one-char atoms is written
         as a double-quoted literal
  univ   every compound (list cells included) is built bottom-up with =../2
         (explicit cells, never compacted: the "twin list" of a string)
  func   every compound built with functor/3 + arg/3
  chars  every maximal run of one-char atoms at the front of a list is built
         at run time: atom_chars/2 when the run ends in [], partial_string/3
         (tail then bound to the rest) otherwise
  copy   the lit term pushed through copy_term/2 (variables re-attached)
  fa     the lit term pushed through findall/3 (ground terms; else = copy)
  asrt   the lit term pushed through assertz/1 + call + retract (ground terms
         and terms with variables alike; variables re-attached)
  seg    every front run of >= 2 one-char atoms is a *segmented* string: the
         first half built with partial_string/3, its tail bound to the literal
         second half (string -> string continuation; comparing it with an
         unsegmented string makes the latter continue at an unaligned offset)
  sfxK   every front run of one-char atoms is the K-th suffix of a longer
         string obtained by destructuring (a PStrLoc that points K bytes into
         a string: unaligned slice start)

render(term, route, ctx) -> (pre_goals, text): conjoin pre_goals before the
goal that uses `text`.  Intermediate variables are named by ctx.
"""
import itertools
import math
from fractions import Fraction

from vx.core.terms import V, NIL, mklist, unlist, quote_atom, quote_string, fmt_float, _ALNUM, _OPATOMS

# ---------------------------------------------------------------------------
# alphabet (DESIGN §6 "Shared alphabets": TERM(k))

ATOMS = ["a", "b", "ab", "[]", "", "é"]
NUMS = [0, 1, -1, 1.0, 2 ** 70, Fraction(1, 2)]
STRS = ["a", "ab", "é", "a\x00b"]          # "" is the atom []
FUNCTORS1 = ["f", "{}"]
FUNCTORS2 = ["g", "."]

HOLE = V("?")
VARNAMES = ["X", "Y", "Z", "W"]


def str_term(s, tail=NIL):
    return mklist(list(s), tail)


def leaves():
    """size-1 shapes (HOLE stands for a variable)"""
    return list(ATOMS) + list(NUMS) + [str_term(s) for s in STRS] + [HOLE]


_shape_cache = {}


def shapes_of_size(n, leafset=None):
    """all shapes with exactly n symbols (a string leaf counts as one symbol)"""
    key = (n, None if leafset is None else tuple(map(repr, leafset)))
    if key in _shape_cache:
        return _shape_cache[key]
    L = leaves() if leafset is None else list(leafset)
    if n == 1:
        out = list(L)
    else:
        out = []
        for f in FUNCTORS1:
            for t in shapes_of_size(n - 1, leafset):
                out.append((f, t))
        for f in FUNCTORS2:
            for n1 in range(1, n - 1):
                n2 = n - 1 - n1
                for t1 in shapes_of_size(n1, leafset):
                    for t2 in shapes_of_size(n2, leafset):
                        out.append((f, t1, t2))
    _shape_cache[key] = out
    return out


def shapes(k, leafset=None):
    """TERM(k) shapes, smallest first"""
    out = []
    for n in range(1, k + 1):
        out += shapes_of_size(n, leafset)
    return out


def nholes(t):
    if isinstance(t, V):
        return 1 if t == HOLE else 0
    if isinstance(t, tuple):
        return sum(nholes(a) for a in t[1:])
    return 0


def fill(t, names, pos=None):
    """replace the HOLEs of t left to right by V(names[i]); returns (term, next index)"""
    if pos is None:
        r, _ = fill(t, names, 0)
        return r
    if isinstance(t, V):
        if t == HOLE:
            return V(names[pos]), pos + 1
        return t, pos
    if isinstance(t, tuple):
        args = []
        for a in t[1:]:
            r, pos = fill(a, names, pos)
            args.append(r)
        return (t[0],) + tuple(args), pos
    return t, pos


def rg_strings(n, maxblocks):
    """restricted-growth strings of length n with at most maxblocks blocks
    (= all sharing patterns of n variable occurrences)"""
    def rec(prefix, mx):
        if len(prefix) == n:
            yield tuple(prefix)
            return
        for v in range(min(mx + 1, maxblocks - 1) + 1):
            prefix.append(v)
            for r in rec(prefix, max(mx, v)):
                yield r
            prefix.pop()
    if n == 0:
        yield ()
        return
    for r in rec([0], 0):
        yield r


def fillings(shape_list, maxvars=3, names=VARNAMES):
    """all joint sharing patterns over the holes of the given shapes (a tuple of
    shapes filled together, so variables are shared across them)"""
    counts = [nholes(s) for s in shape_list]
    n = sum(counts)
    for rg in rg_strings(n, maxvars):
        nm = [names[i] for i in rg]
        out = []
        p = 0
        for s, c in zip(shape_list, counts):
            out.append(fill(s, nm[p:p + c]))
            p += c
        yield tuple(out)


def terms(k, maxvars=3, leafset=None):
    """TERM(k): every shape with every sharing pattern of its own variables"""
    out = []
    for s in shapes(k, leafset):
        for (t,) in fillings([s], maxvars):
            out.append(t)
    return out


# ---------------------------------------------------------------------------
# inspection helpers

def variables(t, acc=None):
    """variables of t, depth-first left-to-right, first occurrences"""
    if acc is None:
        acc = []
    stack = [t]
    while stack:
        x = stack.pop()
        if isinstance(x, V):
            if x not in acc:
                acc.append(x)
        elif isinstance(x, tuple):
            for a in reversed(x[1:]):
                stack.append(a)
    return acc


def is_char(x):
    return isinstance(x, str) and len(x) == 1


def char_run(t):
    """(run, rest): the maximal front run of one-char atoms of a list term"""
    run = []
    while isinstance(t, tuple) and len(t) == 3 and t[0] == "." and is_char(t[1]):
        run.append(t[1])
        t = t[2]
    return "".join(run), t


def has_string(t):
    """does t contain a list cell whose head is a one-char atom (=> a
    compactable/partial-string encoding exists)"""
    stack = [t]
    while stack:
        x = stack.pop()
        if isinstance(x, tuple):
            if len(x) == 3 and x[0] == "." and is_char(x[1]):
                return True
            stack.extend(x[1:])
    return False


def size(t):
    if isinstance(t, tuple):
        if len(t) == 3 and t[0] == "." and is_char(t[1]):
            run, rest = char_run(t)
            return 1 + (0 if rest == NIL else size(rest))
        return 1 + sum(size(a) for a in t[1:])
    return 1


# ---------------------------------------------------------------------------
# rendering

ROUTES = ["lit", "dq", "univ", "func", "chars", "copy", "fa", "asrt", "seg", "sfx1", "sfx3", "sfx8"]


class Ctx:
    """fresh intermediate variable names"""

    def __init__(self, prefix="_B"):
        self.p = prefix
        self.n = 0

    def fresh(self):
        self.n += 1
        return "%s%d" % (self.p, self.n)


def atom_text(a):
    q = quote_atom(a)
    if (not _ALNUM.match(a) and a not in ("[]", "{}")) or a in _OPATOMS:
        if not q.startswith("'"):
            return "(" + q + ")"
    return q


def _atomic(t, ctx, pre):
    if isinstance(t, V):
        return t.n if isinstance(t.n, str) else "_G%d" % t.n
    if isinstance(t, str):
        return atom_text(t)
    if isinstance(t, bool):
        raise TypeError(t)
    if isinstance(t, int):
        return str(t) if t >= 0 else "(%d)" % t
    if isinstance(t, Fraction):
        if t.denominator == 1:
            return _atomic(t.numerator, ctx, pre)
        v = ctx.fresh()
        pre.append("%s is %d rdiv %d" % (v, t.numerator, t.denominator))
        return v
    if isinstance(t, float):
        if t == 0.0 and math.copysign(1.0, t) < 0:
            v = ctx.fresh()
            pre.append("%s is 0.0 * -1" % v)
            return v
        r = fmt_float(t)
        return r if t >= 0 else "(%s)" % r
    raise TypeError(repr(t))


def _is_cell(t):
    return isinstance(t, tuple) and len(t) == 3 and t[0] == "."


def _lit(t, ctx, pre, dq=False):
    if not isinstance(t, tuple):
        return _atomic(t, ctx, pre)
    if _is_cell(t):
        el, tail = unlist(t)
        if dq and tail == NIL and all(is_char(e) for e in el):
            return quote_string("".join(el))
        s = "[" + ",".join(_lit(e, ctx, pre, dq) for e in el)
        if tail != NIL:
            s += "|" + _lit(tail, ctx, pre, dq)
        return s + "]"
    if t[0] == "{}" and len(t) == 2:
        return "{" + _lit(t[1], ctx, pre, dq) + "}"
    return quote_atom(t[0]) + "(" + ",".join(_lit(a, ctx, pre, dq) for a in t[1:]) + ")"


def _build(t, ctx, pre, how):
    """bottom-up construction of every compound with =.. ('univ') or functor/arg ('func')"""
    if not isinstance(t, tuple):
        return _atomic(t, ctx, pre)
    args = [_build(a, ctx, pre, how) for a in t[1:]]
    v = ctx.fresh()
    name = "'.'" if t[0] == "." else quote_atom(t[0])
    if how == "univ":
        pre.append("%s =.. [%s,%s]" % (v, name if t[0] == "." else atom_text(t[0]), ",".join(args)))
    else:
        pre.append("functor(%s,%s,%d)" % (v, name if t[0] == "." else atom_text(t[0]), len(args)))
        for i, a in enumerate(args):
            pre.append("arg(%d,%s,%s)" % (i + 1, v, a))
    return v


def _chars(t, ctx, pre, sfx=None):
    """front runs of one-char atoms built at run time"""
    if not isinstance(t, tuple):
        return _atomic(t, ctx, pre)
    if _is_cell(t):
        run, rest = char_run(t)
        if run and sfx == "seg":
            if len(run) < 2:
                return _lit(t, ctx, pre)
            k = len(run) // 2
            v, tv = ctx.fresh(), ctx.fresh()
            pre.append("partial_string(%s,%s,%s)" % (quote_string(run[:k]), v, tv))
            pre.append("%s = %s" % (tv, _lit(mklist(list(run[k:]), rest), ctx, pre)))
            return v
        if run:
            v = ctx.fresh()
            if sfx is None:
                if rest == NIL:
                    pre.append("atom_chars(%s,%s)" % (quote_atom(run) if run != "[]" else "'[]'", v))
                else:
                    tv = ctx.fresh()
                    rt = _chars(rest, ctx, pre, sfx)
                    pre.append("partial_string(%s,%s,%s)" % (quote_string(run), v, tv))
                    pre.append("%s = %s" % (tv, rt))
                return v
            junk = "jklmnopqrstuvwxyz"[:sfx]
            p = ctx.fresh()
            if rest == NIL:
                pre.append("%s = %s" % (p, quote_string(junk + run)))
            else:
                tv = ctx.fresh()
                rt = _chars(rest, ctx, pre, sfx)
                pre.append("partial_string(%s,%s,%s)" % (quote_string(junk + run), p, tv))
                pre.append("%s = %s" % (tv, rt))
            pre.append("%s = [%s|%s]" % (p, ",".join("_" for _ in junk), v))
            return v
        el, tail = unlist(t)
        s = "[" + ",".join(_chars(e, ctx, pre, sfx) for e in el)
        if tail != NIL:
            s += "|" + _chars(tail, ctx, pre, sfx)
        return s + "]"
    if t[0] == "{}" and len(t) == 2:
        return "{" + _chars(t[1], ctx, pre, sfx) + "}"
    return quote_atom(t[0]) + "(" + ",".join(_chars(a, ctx, pre, sfx) for a in t[1:]) + ")"


def render(t, route, ctx):
    """-> (pre_goals, text)"""
    pre = []
    if route == "lit":
        return pre, _lit(t, ctx, pre)
    if route == "dq":
        return pre, _lit(t, ctx, pre, dq=True)
    if route in ("univ", "func"):
        return pre, _build(t, ctx, pre, route)
    if route == "chars":
        return pre, _chars(t, ctx, pre)
    if route == "seg":
        return pre, _chars(t, ctx, pre, sfx="seg")
    if route.startswith("sfx"):
        return pre, _chars(t, ctx, pre, sfx=int(route[3:]))
    if route in ("copy", "fa", "asrt"):
        txt = _lit(t, ctx, pre)
        vs = variables(t)
        vl = "[" + ",".join(v.n for v in vs) + "]"
        c = ctx.fresh()
        if route == "fa" and not vs:
            pre.append("findall(%s,%s = %s,[%s])" % (c, c, txt, c))
        elif route == "asrt":
            pre.append("assertz(vx_ts_tmp(%s,%s))" % (vl, txt))
            pre.append("retract(vx_ts_tmp(%s,%s))" % (vl, c))
        else:
            pre.append("copy_term(%s-%s,%s-%s)" % (vl, txt, vl, c))
        return pre, c
    raise KeyError(route)


def applicable(t, route):
    """does the route produce something different from lit for this term?"""
    if route in ("lit", "copy", "fa", "asrt"):
        return True
    if route == "dq":
        return _has_proper_string(t)
    if route in ("univ", "func"):
        return isinstance(t, tuple)
    return has_string(t)


def _has_proper_string(t):
    stack = [t]
    while stack:
        x = stack.pop()
        if isinstance(x, tuple):
            if _is_cell(x):
                el, tail = unlist(x)
                if tail == NIL and all(is_char(e) for e in el):
                    return True
                stack.extend(el)
                stack.append(tail)
            else:
                stack.extend(x[1:])
    return False


def goal_with(pres, goal):
    """conjunction text"""
    parts = [p for pre in pres for p in pre] + [goal]
    return ",".join(parts)


# ---------------------------------------------------------------------------
# JSON encoding of abstract terms (replay files)

def tj(t):
    if isinstance(t, V):
        return {"v": t.n}
    if isinstance(t, str):
        return t
    if isinstance(t, bool):
        raise TypeError(t)
    if isinstance(t, int):
        return {"i": str(t)}
    if isinstance(t, float):
        return {"f": repr(t)}
    if isinstance(t, Fraction):
        return {"r": [str(t.numerator), str(t.denominator)]}
    if isinstance(t, tuple):
        return [t[0]] + [tj(a) for a in t[1:]]
    raise TypeError(repr(t))


def jt(j):
    if isinstance(j, str):
        return j
    if isinstance(j, dict):
        if "v" in j:
            return V(j["v"])
        if "i" in j:
            return int(j["i"])
        if "f" in j:
            return float(j["f"])
        if "r" in j:
            return Fraction(int(j["r"][0]), int(j["r"][1]))
    if isinstance(j, list):
        return (j[0],) + tuple(jt(a) for a in j[1:])
    raise TypeError(repr(j))


def kind(t):
    """coarse class used in violation signatures"""
    if isinstance(t, V):
        return "var"
    if isinstance(t, float):
        return "float"
    if isinstance(t, int):
        return "int" if -(2 ** 55) <= t < 2 ** 55 else "bigint"
    if isinstance(t, Fraction):
        return "rat"
    if isinstance(t, str):
        return "atom"
    if _is_cell(t):
        run, rest = char_run(t)
        if run and rest == NIL:
            return "str"
        if run:
            return "pstr"
        return "list"
    return "cmp"
