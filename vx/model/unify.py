"""Reference unifiers on abstract terms (vx.core.terms representation).

  unify_rt(a, b)   rational-tree unification (Huet: union-find over the
                   subterm nodes).  Returns an RT object or None.
  unify_oc(a, b)   Robinson unification with occurs check on a triangular
                   substitution (written independently of unify_rt).  Returns
                   a dict var -> term (fully applied) or None.
  variant(a, b)    alpha-equivalence
  subsumes(g, s)   ISO subsumes_term/2

Numbers are compared type-exactly (1, 1.0 and Fraction(1) are different;
Python's 1 == 1.0 must never leak in), hence every node is identified by tkey().
"""
from fractions import Fraction

from vx.core.terms import V


def tkey(t):
    if isinstance(t, V):
        return ("v", t.n)
    if isinstance(t, bool):
        raise TypeError(t)
    if isinstance(t, int):
        return ("i", t)
    if isinstance(t, float):
        return ("f", t.hex())
    if isinstance(t, Fraction):
        if t.denominator == 1:
            return ("i", t.numerator)
        return ("r", t.numerator, t.denominator)
    if isinstance(t, str):
        return ("a", t)
    if isinstance(t, tuple):
        if len(t) == 1:
            return ("a", t[0])
        return ("c", t[0], len(t) - 1) + tuple(tkey(x) for x in t[1:])
    raise TypeError(repr(t))


def same_atomic(a, b):
    return tkey(a) == tkey(b)


def is_var(t):
    return isinstance(t, V)


def is_compound(t):
    return isinstance(t, tuple) and len(t) > 1


class RT:
    """result of rational-tree unification: classes of subterm nodes"""

    def __init__(self):
        self.parent = {}
        self.node = {}

    def add(self, t):
        k = tkey(t)
        if k not in self.node:
            self.node[k] = t
            self.parent[k] = k
        return k

    def find(self, k):
        p = self.parent
        r = k
        while p[r] != r:
            r = p[r]
        while p[k] != r:
            p[k], k = r, p[k]
        return r

    def rep(self, t):
        """representative term of t's class (a variable only if the class has no non-variable)"""
        return self.node[self.find(self.add(t))]

    def cyclic_from(self, t):
        """is the rational tree denoted by t (under the bindings) infinite?"""
        state = {}

        def dfs(x):
            r = self.rep(x)
            if not is_compound(r):
                return False
            k = tkey(r)
            s = state.get(k)
            if s == 1:
                return True
            if s == 2:
                return False
            state[k] = 1
            for a in r[1:]:
                if dfs(a):
                    return True
            state[k] = 2
            return False
        return dfs(t)

    def resolve(self, t):
        """the finite term denoted by t (precondition: not cyclic_from(t))"""
        r = self.rep(t)
        if is_compound(r):
            return (r[0],) + tuple(self.resolve(a) for a in r[1:])
        return r


def unify_rt(a, b, rt=None):
    rt = rt or RT()
    stack = [(a, b)]
    while stack:
        x, y = stack.pop()
        kx, ky = rt.find(rt.add(x)), rt.find(rt.add(y))
        if kx == ky:
            continue
        x, y = rt.node[kx], rt.node[ky]
        if is_var(x):
            rt.parent[kx] = ky
        elif is_var(y):
            rt.parent[ky] = kx
        elif is_compound(x) and is_compound(y):
            if x[0] != y[0] or len(x) != len(y):
                return None
            rt.parent[kx] = ky
            for p in zip(x[1:], y[1:]):
                stack.append(p)
        else:
            # kx != ky and at least one is atomic -> different
            return None
    return rt


# ---------------------------------------------------------------------------
# Robinson with occurs check (independent implementation)

def _walk(t, s):
    while isinstance(t, V) and t in s:
        t = s[t]
    return t


def _occurs(v, t, s):
    stack = [t]
    while stack:
        x = _walk(stack.pop(), s)
        if isinstance(x, V):
            if x == v:
                return True
        elif is_compound(x):
            stack.extend(x[1:])
    return False


def apply_subst(t, s):
    t = _walk(t, s)
    if is_compound(t):
        return (t[0],) + tuple(apply_subst(a, s) for a in t[1:])
    return t


def unify_oc(a, b):
    """-> triangular substitution dict or None.  Also returns None when only an
    infinite unifier exists."""
    s = {}
    stack = [(a, b)]
    while stack:
        x, y = stack.pop()
        x, y = _walk(x, s), _walk(y, s)
        if isinstance(x, V) and isinstance(y, V) and x == y:
            continue
        if isinstance(x, V):
            if _occurs(x, y, s):
                return None
            s[x] = y
        elif isinstance(y, V):
            if _occurs(y, x, s):
                return None
            s[y] = x
        elif is_compound(x) and is_compound(y):
            if x[0] != y[0] or len(x) != len(y):
                return None
            stack.extend(zip(x[1:], y[1:]))
        else:
            if is_compound(x) or is_compound(y) or not same_atomic(x, y):
                return None
    return s


def classify(a, b):
    """'finite' (a finite mgu exists), 'cyclic' (unifiable only as rational
    trees), 'clash' (not unifiable)"""
    rt = unify_rt(a, b)
    if rt is None:
        return "clash", None
    if rt.cyclic_from(a) or rt.cyclic_from(b):
        return "cyclic", rt
    return "finite", rt


# ---------------------------------------------------------------------------

def variant(a, b):
    """alpha-equivalence (variables of either side may be V of any name)"""
    m1, m2 = {}, {}
    stack = [(a, b)]
    while stack:
        x, y = stack.pop()
        if isinstance(x, V) or isinstance(y, V):
            if not (isinstance(x, V) and isinstance(y, V)):
                return False
            if m1.setdefault(x, y) != y or m2.setdefault(y, x) != x:
                return False
        elif is_compound(x) or is_compound(y):
            if not (is_compound(x) and is_compound(y)) or x[0] != y[0] or len(x) != len(y):
                return False
            stack.extend(zip(x[1:], y[1:]))
        else:
            if not same_atomic(x, y):
                return False
    return True


def term_vars(t, acc=None):
    if acc is None:
        acc = []
    stack = [t]
    while stack:
        x = stack.pop()
        if isinstance(x, V):
            if x not in acc:
                acc.append(x)
        elif is_compound(x):
            stack.extend(reversed(x[1:]))
    return acc


def subsumes(general, specific):
    """ISO 8.2.4: exists theta with General.theta == Specific.theta and
    Specific.theta == Specific"""
    frozen = {v: ("$frozen", v.n) for v in term_vars(specific)}

    def freeze(t):
        if isinstance(t, V):
            return frozen.get(t, t)
        if is_compound(t):
            return (t[0],) + tuple(freeze(x) for x in t[1:])
        return t
    return unify_oc(freeze(general), freeze(specific)) is not None
