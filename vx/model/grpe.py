"""Small helpers shared by the property modules C06, C09, C25, C38, C39, C40:
multi-goal transport, a first-order unifier on vx.core.terms terms, the
standard order of terms, variant canonicalisation.  Python stdlib only."""
from fractions import Fraction

from vx.core import pool, px, terms
from vx.core.terms import V, NIL, mklist, unlist


# ---------------------------------------------------------------------------
# transport

def consult_checked(worker, text, **kw):
    """consult and insist on a clean load (any loader message is a machinery failure)"""
    r = worker.consult(text, **kw)
    out = (r.get("out") or "") + (r.get("err") or "")
    bad = [ln for ln in out.splitlines() if ln.strip() and "Warning: singleton" not in ln]
    if "panic" in r or bad:
        raise pool.MachineryError("consult failed: %r %r" % (r.get("panic"), bad[:5]))
    return r


def run_multi(worker, cmds, chunk=100, attribute=True):
    """cmds: list of lists of goal texts; each inner list is run as ONE driver
    command multi([G1,...]) (goals solved independently, side effects persist).
    -> list of lists of px.Res, aligned with cmds.  If a command ends abnormally
    (panic, crash, hang): with attribute=True its goals are re-run one at a time on
    the (rebuilt) machine so that the abnormal outcome is attributed to one goal
    (only meaningful for stateless goals); with attribute=False every Res of the
    command carries the abnormal signature."""
    out = []
    for i in range(0, len(cmds), chunk):
        part = cmds[i:i + chunk]
        texts = ["multi([%s]) ." % ",".join("(%s)" % g for g in goals) for goals in part]
        raws = worker.q(texts)
        for goals, x in zip(part, raws):
            a = pool.abnormal_sig(x)
            if a:
                if attribute:
                    out.append(px.run_goals(worker, ["g((%s))" % g for g in goals]))
                else:
                    rs = []
                    for _ in goals:
                        r = px.Res()
                        r.abn = a
                        r.raw = x
                        rs.append(r)
                    out.append(rs)
                continue
            out.append(split_multi(x, len(goals)))
    return out


BATCH_MARK = "% grpe-batch\n"


def _drop_batch_consults(worker):
    worker.setup_consults = [c for c in worker.setup_consults if not c[0].startswith(BATCH_MARK)]


def run_robust(worker, consults, cmds, chunk=100, force_single=False):
    """Runs stateful multi-commands (each builds/uses its own renamed-apart predicates, which the
    texts in `consults` define or declare) on a fresh machine.  If anything abnormal happens
    (a panic rebuilds the machine, a hang restarts the worker and the pool re-runs the whole
    request case by case without the batch's programs), all results of the pass are discarded
    and the batch is run again one command per request with the programs persisted, so that
    every command is observed on a machine that has all programs and is not disturbed by the
    recovery of another command.  -> like run_multi(attribute=False)."""
    def prep():
        _drop_batch_consults(worker)
        worker.new_machine()
        for t in consults:
            consult_checked(worker, BATCH_MARK + t, persist=True)
    try:
        if not force_single:
            prep()
            r0 = worker.restarts
            res = run_multi(worker, cmds, chunk=chunk, attribute=False)
            if worker.restarts == r0 and not any(rs[0].abn for rs in res if rs):
                return res
        prep()
        return run_multi(worker, cmds, chunk=1, attribute=False)
    finally:
        _drop_batch_consults(worker)


def split_multi(x, n):
    text, recs = terms.parse_records(x.get("o", ""))
    res = []
    cur = px.Res()
    cur.raw = x
    for kind, payload in recs:
        if kind == "S":
            cur.sols.append(terms.bindings(payload))
        elif kind == "O":
            cur.obs.append(payload)
        elif kind in ("E", "X"):
            if kind == "E":
                cur.status = payload
            else:
                cur.status = "exc"
                cur.exc = payload
            res.append(cur)
            cur = px.Res()
            cur.raw = x
    if len(res) != n:
        raise terms.TransportError("multi: %d status records for %d goals in %r" % (len(res), n, x.get("o", "")[:300]))
    if res:
        res[0].text = text
    return res


# ---------------------------------------------------------------------------
# terms

def is_var(t):
    return isinstance(t, V)


def is_num(t):
    return isinstance(t, (int, float, Fraction)) and not isinstance(t, bool)


def num_class(t):
    if isinstance(t, float):
        return "float"
    if isinstance(t, Fraction):
        return "rational"
    return "integer"


def num_eq(a, b):
    """identity of numbers as Prolog terms: same class and same value"""
    return num_class(a) == num_class(b) and a == b


def walk(t, s):
    while isinstance(t, V) and t in s:
        t = s[t]
    return t


def unify(a, b, s):
    """Robinson unification without occurs check on a persistent dict; -> new dict or None"""
    stack = [(a, b)]
    s = dict(s)
    while stack:
        x, y = stack.pop()
        x = walk(x, s)
        y = walk(y, s)
        if isinstance(x, V):
            if not (isinstance(y, V) and x == y):
                s[x] = y
            continue
        if isinstance(y, V):
            s[y] = x
            continue
        if is_num(x) or is_num(y):
            if not (is_num(x) and is_num(y) and num_eq(x, y)):
                return None
            continue
        if isinstance(x, str) or isinstance(y, str):
            if not (isinstance(x, str) and isinstance(y, str) and x == y):
                return None
            continue
        if isinstance(x, tuple) and isinstance(y, tuple):
            if x[0] != y[0] or len(x) != len(y):
                return None
            for p, q in zip(x[1:], y[1:]):
                stack.append((p, q))
            continue
        return None
    return s


def resolve(t, s):
    t = walk(t, s)
    if isinstance(t, tuple):
        return (t[0],) + tuple(resolve(a, s) for a in t[1:])
    return t


def rename(t, suffix):
    if isinstance(t, V):
        return V("%s%s" % (t.n, suffix))
    if isinstance(t, tuple):
        return (t[0],) + tuple(rename(a, suffix) for a in t[1:])
    return t


def term_vars(t, acc=None):
    if acc is None:
        acc = []
    if isinstance(t, V):
        if t not in acc:
            acc.append(t)
    elif isinstance(t, tuple):
        for a in t[1:]:
            term_vars(a, acc)
    return acc


def canon(t, m=None):
    """rename variables by first occurrence (V(0), V(1), ...) -> comparable up to variance"""
    if m is None:
        m = {}
    if isinstance(t, V):
        if t not in m:
            m[t] = V(len(m))
        return m[t]
    if isinstance(t, tuple):
        return (t[0],) + tuple(canon(a, m) for a in t[1:])
    return t


def strlist(s):
    """the term a double-quoted literal denotes (list of one-char atoms)"""
    return mklist(list(s))


def key_eq(a, b):
    """structural identity (==) of two terms with type-strict numbers"""
    if isinstance(a, V) or isinstance(b, V):
        return isinstance(a, V) and isinstance(b, V) and a == b
    if is_num(a) or is_num(b):
        return is_num(a) and is_num(b) and num_eq(a, b)
    if isinstance(a, tuple) or isinstance(b, tuple):
        return (isinstance(a, tuple) and isinstance(b, tuple) and a[0] == b[0] and len(a) == len(b)
                and all(key_eq(p, q) for p, q in zip(a[1:], b[1:])))
    return a == b


# ---------------------------------------------------------------------------
# standard order (Var < Number < Atom < String/compound); numbers by value,
# ties Float < Integer; compounds by arity, name, args.  Variables compare
# by an age the caller supplies (only used where the order is unambiguous).

def _cls(t):
    if isinstance(t, V):
        return 0
    if is_num(t):
        return 1
    if isinstance(t, str):
        return 3
    return 4


def compare(a, b, varkey=None):
    ca, cb = _cls(a), _cls(b)
    if ca != cb:
        return -1 if ca < cb else 1
    if ca == 0:
        ka = varkey(a) if varkey else a.n
        kb = varkey(b) if varkey else b.n
        return (ka > kb) - (ka < kb)
    if ca == 1:
        if a == b:
            fa, fb = isinstance(a, float), isinstance(b, float)
            if fa != fb:
                return -1 if fa else 1
            return 0
        return -1 if a < b else 1
    if ca == 3:
        return (a > b) - (a < b)
    if len(a) != len(b):
        return -1 if len(a) < len(b) else 1
    if a[0] != b[0]:
        return -1 if a[0] < b[0] else 1
    for p, q in zip(a[1:], b[1:]):
        c = compare(p, q, varkey)
        if c:
            return c
    return 0


def sort_std(xs, dedup=False, varkey=None):
    import functools
    ys = sorted(xs, key=functools.cmp_to_key(lambda p, q: compare(p, q, varkey)))
    if dedup:
        out = []
        for y in ys:
            if not out or compare(out[-1], y, varkey) != 0:
                out.append(y)
        return out
    return ys


def show(t):
    return terms.show(t)
