"""Program spaces shared by C07 and C08 (DESIGN section 6, C07 spaces A and B).

A *program* is a dict
    {"fam": family tag, "clauses": [clause terms], "main": (name, arity),
     "queries": [goal terms], "feat": sorted list of construct tags}
over the helper facts HELPERS.  Clause terms use the predicate names t/2, t3/3,
s/2, h/2 literally; `rename_program` makes them unique for the implementation.

Everything here is a deterministic enumeration: no sampling, no random.
Families
  A1  flat bodies:   t(H1,H2) :- G1,..,Gn.  t(z,z).   all variable sharing patterns
  A2  control:       t(A,B) :- [Pre,] Ctrl [,Post].  t(z,z).
  A3  registers:     t3(A,B,C) :- [G1,] q3(..) [, q3(..)].   every argument assignment
  B   control trees: s(X,Y) :- Tree.  s(z,z).  (plain, and nested through a helper h/2)
"""
import itertools

from vx.core.terms import V, mklist

HELPER_TEXT = "q(a,b). q(b,c). q(c,a). r(b). r(c). q3(a,b,c). q3(b,a,a). q3(c,c,b)."
HELPER_CLAUSES = [("q", "a", "b"), ("q", "b", "c"), ("q", "c", "a"), ("r", "b"), ("r", "c"),
                  ("q3", "a", "b", "c"), ("q3", "b", "a", "a"), ("q3", "c", "c", "b")]

SLOT = V("$slot")
VARNAMES = ["A", "B", "C", "D", "E"]


def is_slot(t):
    return type(t) is V and t.n == "$slot"


def count_slots(t):
    if is_slot(t):
        return 1
    if type(t) is tuple:
        return sum(count_slots(a) for a in t[1:])
    return 0


def fill(t, it):
    """replace the slots of t, left to right, by the values produced by iterator it"""
    if is_slot(t):
        return next(it)
    if type(t) is tuple:
        return (t[0],) + tuple([fill(a, it) for a in t[1:]])
    return t


def rgs(k, maxblocks):
    """restricted growth strings of length k with at most maxblocks blocks"""
    if k == 0:
        yield ()
        return
    a = [0] * k

    def rec(i, m):
        if i == k:
            yield tuple(a)
            return
        for v in range(min(m + 1, maxblocks - 1) + 1):
            a[i] = v
            for x in rec(i + 1, max(m, v)):
                yield x
    a[0] = 0
    for x in rec(1, 0):
        yield x


def conj(goals):
    goals = list(goals)
    t = goals[-1]
    for g in reversed(goals[:-1]):
        t = (",", g, t)
    return t


def features(body):
    """construct tags of a body (for outcome labels and violation signatures)"""
    f = set()

    def walk(t, in_cond, meta):
        if t == "!":
            f.add("cut")
            if in_cond:
                f.add("cut_in_if_cond" + ("_called" if meta else ""))
            return
        if type(t) is not tuple:
            return
        n = t[0]
        if n == "," and len(t) == 3:
            walk(t[1], in_cond, meta)
            walk(t[2], in_cond, meta)
        elif n == ";" and len(t) == 3:
            l = t[1]
            if type(l) is tuple and l[0] == "->" and len(l) == 3:
                f.add("ite")
                walk(l[1], True, meta)
                walk(l[2], in_cond, meta)
            else:
                f.add("disj")
                walk(l, in_cond, meta)
            walk(t[2], in_cond, meta)
        elif n == "->" and len(t) == 3:
            f.add("ifthen")
            walk(t[1], True, meta)
            walk(t[2], in_cond, meta)
        elif n == "\\+" and len(t) == 2:
            f.add("not")
            walk(t[1], False, meta)
        elif n == "call":
            f.add("call%d" % (len(t) - 1))
            if len(t) == 2:
                walk(t[1], False, True)
    walk(body, False, False)
    return sorted(f)


TYPE_TESTS = ("var", "nonvar", "atom", "atomic", "compound", "integer", "number", "float", "callable")


def _flat_goals(b):
    """goals of a body in code order, looking through , ; -> \\+ (not through call/N)"""
    if type(b) is tuple and len(b) == 3 and b[0] in (",", ";", "->"):
        return _flat_goals(b[1]) + _flat_goals(b[2])
    if type(b) is tuple and len(b) == 2 and b[0] == "\\+":
        return _flat_goals(b[1])
    return [b]


def _vars_of(t, acc):
    if type(t) is V:
        acc.add(t.n)
    elif type(t) is tuple:
        for a in t[1:]:
            _vars_of(a, acc)


def clause_features(clause):
    """features of a clause; adds 'typetest_fresh_var' when an inlined type test is
    applied to a variable whose first occurrence in the clause is that test"""
    if type(clause) is tuple and clause[0] == ":-" and len(clause) == 3:
        head, body = clause[1], clause[2]
    else:
        return []
    f = set(features(body))
    seen = set()
    _vars_of(head, seen)
    for g in _flat_goals(body):
        if type(g) is tuple and len(g) == 2 and g[0] in TYPE_TESTS and type(g[1]) is V:
            f.add("typetest")
            if g[1].n not in seen:
                f.add("typetest_fresh_var")
        _vars_of(g, seen)
    return sorted(f)


def program_features(clauses):
    f = set()
    for c in clauses:
        f.update(clause_features(c))
    return sorted(f)


def cut_in_cond(body):
    return any(x.startswith("cut_in_if_cond") for x in features(body))


# ---------------------------------------------------------------------------
# family A1: flat bodies

S = SLOT
A1_HEADS = [(S, S), ("c", S), (S, "c"), (("f", S), S), (("." , S, S), S)]
A1_LEAVES_Q = [("q", S, S), ("r", S), ("=", S, S), ("=", S, ("f", S)), ("==", S, "c"),
               ("atom", S), ("var", S), "!", "fail"]
A1_LEAVES_T = A1_LEAVES_Q + [("q", S, "c"), ("is", S, ("+", 1, 1)), ("<", S, 1), "true", ("call", "q", S, S)]
A1_LEAVES_3 = [("q", S, S), ("r", S), ("=", S, S), "!"]
A1_LEAVES_3T = [("q", S, S), ("r", S), ("=", S, S), "!", ("=", S, ("f", S)), "fail"]
A1_LEAVES_4T = [("q", S, S), ("r", S), "!"]
A1_HEADS_3 = [(S, S), (("f", S), S)]
A1_HEADS_3T = [(S, S), (("f", S), S), ("c", S)]


def a1_skeletons(tier):
    """(head args, [goal skeletons], maxvars)"""
    out = []
    leaves = A1_LEAVES_T if tier == "thorough" else A1_LEAVES_Q
    for h in A1_HEADS:
        for g in leaves:
            out.append((h, [g], 4))
    for h in A1_HEADS:
        for g1 in leaves:
            for g2 in leaves:
                out.append((h, [g1, g2], 4))
    l3 = A1_LEAVES_3T if tier == "thorough" else A1_LEAVES_3
    for h in (A1_HEADS_3T if tier == "thorough" else A1_HEADS_3):
        for gs in itertools.product(l3, repeat=3):
            out.append((h, list(gs), 4 if tier == "thorough" else 3))
    if tier == "thorough":
        for gs in itertools.product(A1_LEAVES_4T, repeat=4):
            out.append(((S, S), list(gs), 3))
    return out


def a1_queries(head):
    qs = [("t", V("X"), V("Y")), ("t", "c", V("Y")), ("t", V("X"), "c")]
    h1 = head[0]
    if type(h1) is tuple and h1[0] == ".":
        qs.append(("t", (".", V("Z"), "b"), V("Y")))
    else:
        qs.append(("t", ("f", V("Z")), V("Y")))
    return qs


def a1_programs(skel):
    head, goals, maxvars = skel
    sk = ("c", ("t",) + tuple(head), conj(goals))
    k = count_slots(sk)
    qs = a1_queries(head)
    for pat in rgs(k, maxvars):
        t = fill(sk, iter([V(VARNAMES[i]) for i in pat]))
        body = t[2]
        yield {"fam": "A1", "clauses": [(":-", t[1], body), ("t", "z", "z")], "main": ("t", 2),
               "queries": qs, "feat": clause_features((":-", t[1], body))}


# ---------------------------------------------------------------------------
# family A2: one control construct in context.  The head is t(A,B); the
# remaining slots range over {A, B, L, M} up to renaming of the locals L, M.

A2_INNER = [("q", S, S), ("r", S), ("=", S, S), "!", "fail", "true"]
A2_COND = [("q", S, S), ("r", S), ("=", S, S), "!", "fail"]
A2_BR = [("r", S), ("=", S, S), "!", "fail"]


def a2_ctrl(tier):
    out = []
    for a in A2_INNER:
        for b in A2_INNER:
            out.append((";", a, b))
    for c in A2_COND:
        for t in A2_BR:
            for e in A2_BR:
                out.append((";", ("->", c, t), e))
            out.append(("->", c, t))
    for a in A2_COND:
        out.append(("\\+", a))
    for a in A2_INNER:
        out.append(("call", a))
    out.append(("call", "q", S, S))
    out.append(("call", ("q", S), S))
    for b in ["!", ("r", S)]:
        for c in A2_INNER:
            out.append((";", (",", ("q", S, S), b), c))
            out.append((";", c, (",", ("q", S, S), b)))
    out.append(("\\+", (",", ("q", S, S), "!")))
    out.append(("call", (",", ("q", S, S), "!")))
    out.append(("call", (";", ("q", S, S), ("r", S))))
    out.append((";", ("->", (",", ("q", S, S), "!"), ("r", S)), ("=", S, S)))
    return out


def a2_fills(k, pool):
    """all functions from k slots to the pool [A,B,L,M], up to swapping L and M
    (canonical: L is used before M)"""
    for pat in itertools.product(range(len(pool)), repeat=k):
        seen_l = False
        ok = True
        for v in pat:
            if v == 2:
                seen_l = True
            elif v == 3 and not seen_l:
                ok = False
                break
        if ok:
            yield [V(pool[i]) for i in pat]


def a2_skeletons(tier):
    ctrl = a2_ctrl(tier)
    if tier == "thorough":
        pres = [None, ("q", S, S), ("r", S)]
        posts = [None, ("q", S, S), ("r", S), "!"]
    else:
        pres = [None, ("q", S, S)]
        posts = [None, ("r", S)]
    out = []
    for c in ctrl:
        for pre in pres:
            for post in posts:
                goals = [g for g in (pre, c, post) if g is not None]
                out.append(goals)
    return out


A2_QUERIES = [("t", V("X"), V("Y")), ("t", "c", V("Y")), ("t", V("X"), "c")]


def a2_programs(goals, tier):
    body = conj(goals)
    k = count_slots(body)
    # bound the per-skeleton fan-out: up to 5 slots all 4 names, above that 3 names (A, B, L)
    if k <= (5 if tier == "thorough" else 4):
        pool = ["A", "B", "L", "M"]
    elif k <= (6 if tier == "thorough" else 5):
        pool = ["A", "B", "L"]
    else:
        pool = ["A", "L"]
    head = ("t", V("A"), V("B"))
    for vals in a2_fills(k, pool):
        b = fill(body, iter(vals))
        yield {"fam": "A2", "clauses": [(":-", head, b), ("t", "z", "z")], "main": ("t", 2),
               "queries": A2_QUERIES, "feat": features(b)}


# ---------------------------------------------------------------------------
# family A3: argument-register shuffles

A3_QUERIES = [("t3", V("X"), V("Y"), V("Z")), ("t3", "a", V("Y"), V("Z")), ("t3", V("X"), V("Y"), "a")]


def a3_programs(tier):
    pool = [V("A"), V("B"), V("C"), V("L")]
    head = ("t3", V("A"), V("B"), V("C"))
    pres = [None, ("r", V("A")), ("r", V("L")), ("q", V("C"), V("L"))]
    for pre in pres:
        for u in itertools.product(pool, repeat=3):
            goals = [g for g in (pre, ("q3",) + u) if g is not None]
            yield {"fam": "A3", "clauses": [(":-", head, conj(goals))], "main": ("t3", 3),
                   "queries": A3_QUERIES, "feat": []}
    for u in itertools.product(pool, repeat=3):
        for w in itertools.product(pool, repeat=3):
            yield {"fam": "A3", "clauses": [(":-", head, conj([("q3",) + u, ("q3",) + w]))], "main": ("t3", 3),
                   "queries": A3_QUERIES, "feat": []}
    if tier == "thorough":
        # structure arguments: a variable first seen inside a structure, then as an argument
        for u in itertools.product(pool, repeat=3):
            for i in range(3):
                for w in itertools.product(pool, repeat=2):
                    a = list(u)
                    a[i] = ("f", a[i])
                    yield {"fam": "A3", "clauses": [(":-", head, conj([("q",) + w, ("=", V("L"), ("g",) + tuple(a)),
                                                                      ("q3",) + u]))],
                           "main": ("t3", 3), "queries": A3_QUERIES, "feat": []}


# ---------------------------------------------------------------------------
# family B: control trees over fixed variables X, Y

X, Y = V("X"), V("Y")
B_LEAVES = ["true", "fail", ("=", X, "a"), ("=", X, "b"), ("=", Y, X), ("r", X), "!"]


def b_trees(size, _memo={}):
    """all control trees with exactly `size` nodes (an if-then-else counts as one node)"""
    if size in _memo:
        return _memo[size]
    out = []
    if size == 1:
        out = list(B_LEAVES)
    else:
        for t in b_trees(size - 1):
            out.append(("\\+", t))
            out.append(("call", t))
        for ls in range(1, size - 1):
            rs = size - 1 - ls
            for l in b_trees(ls):
                l_is_ifthen = type(l) is tuple and l[0] == "->" and len(l) == 3
                for r in b_trees(rs):
                    out.append((",", l, r))
                    if not l_is_ifthen:   # (C -> T) ; E is the if-then-else node below
                        out.append((";", l, r))
                    out.append(("->", l, r))
        for cs in range(1, size - 2):
            for ts in range(1, size - 1 - cs):
                es = size - 1 - cs - ts
                if es < 1:
                    continue
                for c in b_trees(cs):
                    for t in b_trees(ts):
                        for e in b_trees(es):
                            out.append((";", ("->", c, t), e))
    _memo[size] = out
    return out


B_QUERIES = [("s", V("X"), V("Y")), ("s", "b", V("Y"))]


def b_program(tree, ctx):
    if ctx == "plain":
        cl = [(":-", ("s", X, Y), tree), ("s", "z", "z")]
    else:
        cl = [(":-", ("s", X, Y), ("h", X, Y)), ("s", "z", "z"),
              (":-", ("h", X, Y), tree), ("h", "y", "y")]
    return {"fam": "B" + ("n" if ctx != "plain" else ""), "clauses": cl, "main": ("s", 2),
            "queries": B_QUERIES, "feat": features(tree)}


# ---------------------------------------------------------------------------
# family C: conjunctions containing a cut as the condition of if-then(-else),
# under \\+ and under call/1 (the opaque positions of ISO 7.8)

C_LEAVES = ["!", "fail", "true", ("r", X), ("=", X, "a")]
C_BRANCH = ["true", ("=", Y, "b"), "fail"]


def c_conds():
    out = []
    for n in (1, 2, 3):
        for gs in itertools.product(C_LEAVES, repeat=n):
            if "!" in gs:
                out.append(conj(gs))
    return out


def c_bodies():
    for c in c_conds():
        for t in C_BRANCH:
            yield ("->", c, t)
            for e in C_BRANCH:
                yield (";", ("->", c, t), e)
                yield ("call", (";", ("->", c, t), e))
        yield ("\\+", c)
        yield ("call", c)
        yield (",", ("r", Y), ("\\+", c))
        yield (",", ("call", c), ("r", Y))


def c_programs():
    for b in c_bodies():
        yield b_program(b, "plain")


# ---------------------------------------------------------------------------
# family D: a control construct K (if-then without else, if-then-else, \\+, call/1)
# as the LAST goal of a NON-FINAL disjunct, preceded by 0..2 goals with 0..2
# solutions each, in disjunction nests of 2 and 3 branches, followed or not by
# a further goal; in a clause body and with the whole body under call/1.

D_PRE = [("r", X), ("=", X, "a"), "fail"]                 # 2, 1, 0 solutions
D_COND = ["true", "fail", ("r", Y), ("=", Y, "a")]
D_THEN = ["true", ("=", Y, "b"), "fail"]
D_ELSE = ["true", ("=", Y, "c")]
D_OTHER = [("=", X, 9), ("r", X)]
D_POST = [None, ("r", Y)]


def d_constructs():
    for c in D_COND:
        for t in D_THEN:
            yield ("->", c, t)
            for e in D_ELSE:
                yield (";", ("->", c, t), e)
        yield ("\\+", c)
        yield ("call", c)


def d_bodies():
    pres = [[]] + [[g] for g in D_PRE] + [[g1, g2] for g1 in D_PRE for g2 in D_PRE]
    for k in d_constructs():
        for pre in pres:
            d1 = conj(pre + [k])
            nests = []
            for e in D_OTHER + ["fail"]:
                nests.append((";", d1, e))
            for e1 in D_OTHER:
                for e2 in D_OTHER:
                    nests.append((";", d1, (";", e1, e2)))      # K-disjunct first of three
                    nests.append((";", e1, (";", d1, e2)))      # K-disjunct in the middle
            for n in nests:
                for post in D_POST:
                    b = n if post is None else (",", n, post)
                    yield b
                    yield ("call", b)


def d_programs():
    for b in d_bodies():
        p = b_program(b, "plain")
        p["fam"] = "D"
        yield p


# ---------------------------------------------------------------------------
# renaming and JSON encoding

PROGRAM_PREDS = {("t", 2), ("t3", 3), ("s", 2), ("h", 2)}


def rename_term(t, suffix):
    if type(t) is tuple:
        n = t[0]
        if (n, len(t) - 1) in PROGRAM_PREDS:
            n = n + suffix
        return (n,) + tuple([rename_term(a, suffix) for a in t[1:]])
    return t


def enc(t):
    if type(t) is V:
        return {"v": t.n}
    if type(t) is tuple:
        return [t[0]] + [enc(a) for a in t[1:]]
    return t


def dec(j):
    if isinstance(j, dict):
        return V(j["v"])
    if isinstance(j, list):
        return (j[0],) + tuple(dec(a) for a in j[1:])
    return j
