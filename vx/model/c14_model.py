"""C14 reference model: standard order of terms, variant matching, list /
ordset / assoc operations as plain Python.

Abstract terms are the ones of vx.core.terms (atoms str, numbers int/float,
variables V(name), compounds tuples, list cells ('.', H, T)).
"""
import functools
import itertools

from vx.core.terms import V, mklist, unlist, NIL


# --------------------------------------------------------------------------
# standard order: Var < Float < Integer < Atom < Compound (Scryer puts every
# float before every integer; C13 statement). Variables are ordered by the
# rank map given (their relative order is implementation dependent).

def _cls(t):
    if isinstance(t, V):
        return 0
    if isinstance(t, bool):
        raise TypeError(t)
    if isinstance(t, float):
        return 1
    if isinstance(t, int):
        return 2
    if isinstance(t, str):
        return 3
    if isinstance(t, tuple):
        return 4
    raise TypeError(repr(t))


def compare(a, b, vrank=None):
    """-1 / 0 / 1"""
    stack = [(a, b)]
    while stack:
        a, b = stack.pop()
        ca, cb = _cls(a), _cls(b)
        if ca != cb:
            return -1 if ca < cb else 1
        if ca == 0:
            if a == b:
                continue
            ra, rb = vrank[a.n], vrank[b.n]
            return -1 if ra < rb else 1
        if ca in (1, 2):
            if a != b:
                return -1 if a < b else 1
            continue
        if ca == 3:
            if a != b:
                ka, kb = [ord(c) for c in a], [ord(c) for c in b]
                return -1 if ka < kb else 1
            continue
        # compound: arity, name, args left to right
        if len(a) != len(b):
            return -1 if len(a) < len(b) else 1
        if a[0] != b[0]:
            ka, kb = [ord(c) for c in a[0]], [ord(c) for c in b[0]]
            return -1 if ka < kb else 1
        for x, y in reversed(list(zip(a[1:], b[1:]))):
            stack.append((x, y))
    return 0


def identical(a, b):
    """==/2"""
    return a == b and _same_types(a, b)


def _same_types(a, b):
    # Python says 1 == 1.0; Prolog does not
    stack = [(a, b)]
    while stack:
        a, b = stack.pop()
        if isinstance(a, tuple):
            if not isinstance(b, tuple) or len(a) != len(b):
                return False
            stack.extend(zip(a, b))
        elif type(a) is not type(b):
            return False
        elif a != b:
            return False
    return True


def term_vars(t, acc=None):
    acc = [] if acc is None else acc
    stack = [t]
    while stack:
        x = stack.pop()
        if isinstance(x, V):
            if x not in acc:
                acc.append(x)
        elif isinstance(x, tuple):
            stack.extend(reversed(x[1:]))
    return acc


def var_orders(vs):
    """every possible relative order of the variables -> list of rank maps"""
    names = [v.n for v in vs]
    if not names:
        return [{}]
    return [dict((n, i) for i, n in enumerate(p)) for p in itertools.permutations(names)]


def sort_dedup(elems, vrank):
    key = functools.cmp_to_key(lambda a, b: compare(a, b, vrank))
    out = []
    for e in sorted(elems, key=key):
        if not out or compare(out[-1], e, vrank) != 0:
            out.append(e)
    return out


def keysort(pairs, vrank):
    """pairs: list of ('-', K, V); stable on K"""
    key = functools.cmp_to_key(lambda a, b: compare(a[1], b[1], vrank))
    return sorted(pairs, key=key)  # Python's sort is stable


def list_to_set(elems):
    out = []
    for e in elems:
        if not any(identical(e, o) for o in out):
            out.append(e)
    return out


def is_ordset(elems, vrank):
    return all(compare(a, b, vrank) < 0 for a, b in zip(elems, elems[1:]))


# --------------------------------------------------------------------------
# variant matching: expected term (variables V(name)) against an observed
# term (variables V(int)) under a bijection that is extended on the fly.

class Bij:
    def __init__(self):
        self.f = {}
        self.g = {}

    def bind(self, en, on):
        if en in self.f:
            return self.f[en] == on
        if on in self.g:
            return False
        self.f[en] = on
        self.g[on] = en
        return True

    def copy(self):
        b = Bij()
        b.f = dict(self.f)
        b.g = dict(self.g)
        return b


def variant(exp, obs, bij=None):
    """True iff obs is exp up to the (extended) variable bijection.
    Numbers must agree in type and value."""
    bij = Bij() if bij is None else bij
    stack = [(exp, obs)]
    while stack:
        e, o = stack.pop()
        if isinstance(e, V):
            if not isinstance(o, V) or not bij.bind(e.n, o.n):
                return False
        elif isinstance(e, tuple):
            if not isinstance(o, tuple) or len(e) != len(o) or e[0] != o[0]:
                return False
            stack.extend(reversed(list(zip(e[1:], o[1:]))))
        else:
            if isinstance(o, (V, tuple)) or type(e) is not type(o) or e != o:
                return False
    return True


def variant_any(cands, obs):
    return any(variant(c, obs) for c in cands)


class Fresh:
    """supply of distinct expected-side fresh variables"""

    def __init__(self):
        self.k = 0

    def __call__(self):
        self.k += 1
        return V("_F%d" % self.k)


def subst(t, s):
    """apply {var name: term}"""
    if isinstance(t, V):
        return s.get(t.n, t)
    if isinstance(t, tuple):
        return (t[0],) + tuple(subst(a, s) for a in t[1:])
    return t


def unify_simple(pat, elem):
    """unification of a *ground or variable* pattern with a *ground or variable*
    element -> substitution dict or None. (All C14 elements are ground terms or
    plain variables, so nothing deeper is needed.)"""
    if isinstance(pat, V) and isinstance(elem, V):
        return {} if pat == elem else {pat.n: elem}
    if isinstance(pat, V):
        return {pat.n: elem}
    if isinstance(elem, V):
        return {elem.n: pat}
    return {} if identical(pat, elem) else None


# --------------------------------------------------------------------------
# AVL term of library(assoc): t | t(K,V,Balance,L,R)

class AvlError(Exception):
    pass


def avl_check(t):
    """-> (height, inorder [(k, v)]); raises AvlError describing a broken
    structural invariant (shape, balance annotation, AVL condition). Key order
    is checked by the caller on the in-order list."""
    if t == "t":
        return 0, []
    if not (isinstance(t, tuple) and len(t) == 6 and t[0] == "t"):
        raise AvlError("not an assoc node: %r" % (t,))
    _, k, v, b, l, r = t
    hl, il = avl_check(l)
    hr, ir = avl_check(r)
    want = "-" if hl == hr else ("<" if hl > hr else ">")
    if b != want:
        raise AvlError("balance annotation %r at key %r but subtree heights are %d/%d" % (b, k, hl, hr))
    if abs(hl - hr) > 1:
        raise AvlError("AVL condition broken at key %r: heights %d/%d" % (k, hl, hr))
    return 1 + max(hl, hr), il + [(k, v)] + ir


def avl_parents(t, parent=None, acc=None):
    """key -> parent key (None for the root)"""
    acc = {} if acc is None else acc
    if t == "t" or not (isinstance(t, tuple) and len(t) == 6):
        return acc
    acc[_hk(t[1])] = parent
    avl_parents(t[4], _hk(t[1]), acc)
    avl_parents(t[5], _hk(t[1]), acc)
    return acc


def _hk(k):
    return (type(k).__name__, k)
