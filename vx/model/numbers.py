"""Number alphabets and exact reference arithmetic (Python int / Fraction / float)."""
import math
from fractions import Fraction

FIX_MAX = 2 ** 55 - 1
FIX_MIN = -(2 ** 55)

INT = sorted(set([
    0, 1, -1, 2, -2, 3, -3, 7, -7,
    2 ** 31 - 1, -(2 ** 31 - 1), 2 ** 31, -(2 ** 31), 2 ** 31 + 1, -(2 ** 31 + 1),
    FIX_MAX, FIX_MAX + 1, FIX_MIN, FIX_MIN - 1,
    2 ** 62, -(2 ** 62), 2 ** 63 - 1, 2 ** 63, -(2 ** 63), -(2 ** 63) - 1,
    2 ** 64 - 1, 2 ** 64, -(2 ** 64), 2 ** 64 + 1, 10 ** 20,
    2 ** 70, -(2 ** 70), 2 ** 100 + 1, 3 ** 50,
]), key=lambda v: (abs(v), v))

INT_SMALL = [0, 1, -1, 2, -3, 7, FIX_MAX, FIX_MIN, 2 ** 63, -(2 ** 63) - 1, 2 ** 64, 2 ** 70]

SHIFT = [0, 1, 2, 31, 32, 54, 55, 56, 62, 63, 64, 65, 100]

RAT = [Fraction(1, 2), Fraction(-1, 2), Fraction(1, 3), Fraction(2, 3), Fraction(3, 2),
       Fraction(7, 2), Fraction(-7, 2), Fraction(2 ** 70 + 1, 2), Fraction(1, 2 ** 70),
       Fraction(10 ** 20, 3)]


def is_fix(v):
    return FIX_MIN <= v <= FIX_MAX


def mag_class(v):
    """coarse magnitude class used in violation signatures"""
    a = abs(v)
    s = "-" if v < 0 else "+"
    if a == 0:
        return "0"
    if a < 2 ** 31:
        return s + "small"
    if a <= FIX_MAX + 1:
        return s + "fix"
    if a <= 2 ** 63:
        return s + "i64"
    if a <= 2 ** 64 + 1:
        return s + "u64"
    return s + "big"


def int_text(v, enc):
    """source text of integer v in encoding 'lit' or 'arith' (held as a bignum cell)"""
    t = str(v) if v >= 0 else "(%d)" % v
    if enc == "lit":
        return t
    return "(%s + 2^80 - 2^80)" % t


# --- exact integer operations; return int or ('error', formal) --------------

def ZD():
    return ("error", ("evaluation_error", "zero_divisor"))


def UNDEF():
    return ("error", ("evaluation_error", "undefined"))


def tdiv(a, b):
    q = abs(a) // abs(b)
    return q if (a >= 0) == (b >= 0) else -q


def int_binop(op, a, b):
    if op == "+":
        return a + b
    if op == "-":
        return a - b
    if op == "*":
        return a * b
    if op == "//":
        return ZD() if b == 0 else tdiv(a, b)
    if op == "div":
        return ZD() if b == 0 else a // b
    if op == "mod":
        return ZD() if b == 0 else a % b
    if op == "rem":
        return ZD() if b == 0 else a - b * tdiv(a, b)
    if op == "gcd":
        return math.gcd(a, b)
    if op == "min":
        return min(a, b)
    if op == "max":
        return max(a, b)
    if op == "/\\":
        return a & b
    if op == "\\/":
        return a | b
    if op == "xor":
        return a ^ b
    if op == "<<":
        if b < 0:
            return None  # implementation defined
        return a << b
    if op == ">>":
        if b < 0:
            return None
        return a >> b
    if op == "^":
        if b >= 0:
            return a ** b
        if a == 1:
            return 1
        if a == -1:
            return 1 if b % 2 == 0 else -1
        if a == 0:
            return UNDEF()
        return ("error", ("type_error", "float", a))
    raise KeyError(op)


def int_unop(op, a):
    if op == "-":
        return -a
    if op == "+":
        return a
    if op == "abs":
        return abs(a)
    if op == "sign":
        return (a > 0) - (a < 0)
    if op == "\\":
        return ~a
    raise KeyError(op)


BIN_INT_OPS = ["+", "-", "*", "//", "div", "mod", "rem", "gcd", "min", "max", "/\\", "\\/", "xor"]
UN_INT_OPS = ["-", "abs", "sign", "\\"]


def bin_text(op, x, y):
    if op in ("gcd", "min", "max", "xor"):
        return "%s(%s,%s)" % (op, x, y)
    return "(%s %s %s)" % (x, op, y)


def un_text(op, x):
    if op in ("abs", "sign"):
        return "%s(%s)" % (op, x)
    return "(%s %s)" % (op, x)
