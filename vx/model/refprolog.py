"""REF - the reference Prolog interpreter (DESIGN.md section 4.2).

A deliberately boring, independent model of ISO Prolog execution used as the
oracle of the program-level properties (C07, C08, C09, C11, C12, C25, C29,
C38, C39).  No indexing, no compilation, no trail:

* terms are the abstract terms of vx.core.terms (atoms ``str``, integers
  ``int``, floats ``float``, variables ``V(n)``, compounds ``(name, a1..an)``,
  list cells ``('.', H, T)``);
* bindings live in a *persistent* substitution (a dict that is never mutated
  once something else holds a reference to it), so the state after
  backtracking / after catch/3 recovery is a model fact: it is simply the
  substitution that was current when the choice point / catch was created;
* the continuation is an immutable linked list of frames
  ``(goal, cut_barrier, next)``; choice points are an explicit Python list;
  ``!`` truncates that list to the barrier recorded in the frame;
* the database is a list of clauses per predicate with birth/death
  generation stamps; a call sees exactly the clauses alive when it started
  (logical update view by construction).

API
---
    ref = RefProlog(clauses, dynamic=[('d', 1)])
        clauses: iterable of clause terms: ``(':-', Head, Body)``, a fact
        ``Head``, or directives ``(':-', ('dynamic', PI))`` with
        ``PI = ('/', name, arity)`` (comma lists / lists of PIs accepted).
        Predicates defined this way are *static* (assert on them raises
        permission_error); predicates named in ``dynamic`` or created by
        assert are dynamic (calling one without clauses fails instead of
        raising existence_error).
    ref.add_clause(term, front=False)    add one more static clause
    ref.fork(clauses=(), quirks=None)    cheap copy sharing the static predicates (+ clauses): run
                                         thousands of small programs over one set of helper facts
    ref.solve(goal, max_solutions=64, max_steps=100000) -> (answers, status)
        answers: list of tuples, one per solution, giving the instantiation
            of the goal's variables in first-occurrence (depth-first,
            left-to-right) order -- see ``term_vars(goal)`` -- with every
            remaining variable renamed V(0), V(1), ... by first occurrence in
            the tuple (``canon``), so that tuples compare with ``==`` after
            applying ``canon`` to the implementation's answer as well.
        status: 'done'            search space exhausted
                'cap'             max_solutions reached (more may exist)
                'budget'          step budget exhausted (possible non-termination)
                'sto'             a unification would have created a cyclic term: the
                                  program is "subject to occurs check", its behaviour is
                                  undefined in ISO and REF stops (answers so far are valid)
                ('exc', Ball)     uncaught exception; Ball canonicalised.  For
                                  ISO errors Ball = ('error', Formal, V) and the
                                  context is a fresh variable: compare the formal
                                  only (``formal_of``).
        The database persists between calls of solve (assert/retract), so a
        sequence of solve calls models a history.
    ref.solve_iter(goal, max_steps) -> generator of (answer tuple)  [status in .last_status]
    ref.listing(name, arity) -> list of (Head, Body) currently alive
    ref.stats     dict of the last run: steps, backtracks (choice points
                  resumed), cuts_nonempty (cuts that removed >= 1 choice point),
                  max_cps, cleanups_run, catches (balls caught)
    ref.output    list of terms written by write/1, print/1, writeq/1 and 'nl'
    ref.register_det(name, arity, fn)       fn(engine, args) -> True/False (use engine.unify)
    ref.register_nondet(name, arity, fn)    fn(engine, args) -> iterator of thunks; each thunk()
                                            is run after backtracking to the call state and
                                            returns True/False
    canon(terms), term_vars(term), formal_of(ball), resolve helpers, and a
    small ``parse(text)`` reader for tests and triage (not used by checks for
    transport).

Supported: user predicates; ``,``/2 ``;``/2 ``->``/2 if-then-else ``*->``/2
``\\+``/1 ``!`` call/1..8 (cut opaque) once/1 ignore/1 forall/2 findall/3,4
catch/3 throw/1 (ball copied) setup_call_cleanup/3 call_cleanup/2 true fail
false halt-free; ``=`` ``\\=`` ``==`` ``\\==`` ``@<`` ``@>`` ``@=<`` ``@>=``
compare/3 var nonvar atom integer float number atomic compound callable
is_list ground functor/3 arg/3 ``=..``/2 copy_term/2 is/2 ``=:=`` ``=\\=``
``<`` ``>`` ``=<`` ``>=`` (integer arithmetic, floats carried through + - * /)
between/3 length/2 (proper lists and enumeration) assertz/1 asserta/1
assert/1 retract/1 retractall/1 abolish/1 clause/2 write/1 print/1 writeq/1
nl/0 atom_length/2 (plain) bb_put/bb_get/bb_b_put (a persistent and a shadowing backtrackable slot per key;
bb_b_put records the old backtrackable value in the substitution and it is put back when an
older state is restored) put_atts/2
get_atts/2 (one attribute term, no hooks).

Choice-point model (only an *upper bound*, see DESIGN section 4.2(iii)): a
call of a predicate with k > 1 live clauses keeps a choice point until its
last clause is tried, whatever the arguments (no indexing); a disjunction
keeps one until its last branch is entered.  setup_call_cleanup/3 runs the
cleanup at deterministic exit (no younger choice point), on failure, on
exception, and when its choice point is cut; checks must not compare the
exact *moment* of a cleanup where indexing could make a real system more
deterministic than this model.

Deviation models (``quirks=`` argument; used only to give an observed
disagreement an exact signature, never as the expectation):
    "body_cond_cut"      a cut in the condition of an if-then(-else) that is
                         written in a clause body cuts the clause (or the
                         enclosing \\+), as the compiler of the pinned tree does
    "not_cut_free"       (with body_cond_cut) a `!` inside \\+ in a clause body that is
                         followed by a nested \\+ / if-then-else disables the final
                         cut of the outer \\+: it behaves as (G, fail ; true)
    "call_ite_cond_cut"  a cut in the condition of (C -> T ; E) passed to
                         call/N cuts to the barrier of the call (removing the
                         else branch), as builtins.pl dispatch_prep_ does

Self test:  python3 -m vx.model.refprolog
"""
import re
import sys

from vx.core.terms import V, mklist, unlist, NIL, fmt

__all__ = ["RefProlog", "canon", "term_vars", "formal_of", "parse", "parse_program", "PrologThrow"]


class PrologThrow(Exception):
    def __init__(self, ball):
        Exception.__init__(self, "ball")
        self.ball = ball


class _Budget(Exception):
    pass


class _STO(Exception):
    """a unification would have created a cyclic term (subject to occurs check)"""


class _I(object):
    """internal goal (cannot collide with a user term)"""
    __slots__ = ("op", "a", "b", "c")

    def __init__(self, op, a=None, b=None, c=None):
        self.op = op
        self.a = a
        self.b = b
        self.c = c

    def __repr__(self):
        return "_I(%s)" % self.op


class _Clause(object):
    __slots__ = ("head", "body", "nvars", "birth", "death")

    def __init__(self, head, body, nvars, birth):
        self.head = head
        self.body = body
        self.nvars = nvars
        self.birth = birth
        self.death = None  # None = alive


class _Pred(object):
    __slots__ = ("clauses", "dynamic")

    def __init__(self, dynamic):
        self.clauses = []
        self.dynamic = dynamic


class _CatchRec(object):
    __slots__ = ("catcher", "recovery", "subst", "height", "next")


class _SccRec(object):
    __slots__ = ("cleanup", "subst", "done", "next")


# choice point kinds
_ALT, _CLAUSES, _CLEANUP, _FINDALL, _RETRY = range(5)

_MISSING = object()


# ---------------------------------------------------------------------------
# term utilities

def _deref(t, s):
    while type(t) is V:
        b = s.get(t.n, _MISSING)
        if b is _MISSING:
            return t
        t = b
    return t


def _resolve(t, s):
    """apply the substitution everywhere (terms are assumed acyclic); iterative
    along the last argument so that long lists do not recurse"""
    t = _deref(t, s)
    if type(t) is not tuple or len(t) == 1:
        return t
    parts = []
    while True:
        parts.append((t[0],) + tuple([_resolve(a, s) for a in t[1:-1]]))
        last = _deref(t[-1], s)
        if type(last) is tuple and len(last) > 1:
            t = last
            continue
        break
    r = last
    for p in reversed(parts):
        r = p + (r,)
    return r


def _map_vars(t, fv):
    """rebuild t with fv(v) in place of every variable v (iterative along the last argument)"""
    if type(t) is V:
        return fv(t)
    if type(t) is not tuple or len(t) == 1:
        return t
    parts = []
    while True:
        parts.append((t[0],) + tuple([_map_vars(a, fv) for a in t[1:-1]]))
        last = t[-1]
        if type(last) is tuple and len(last) > 1:
            t = last
            continue
        break
    r = fv(last) if type(last) is V else last
    for p in reversed(parts):
        r = p + (r,)
    return r


def term_vars(t, acc=None):
    """variables of t in depth-first left-to-right first-occurrence order"""
    if acc is None:
        acc = []
    seen = set(v.n for v in acc)
    stack = [t]
    while stack:
        t = stack.pop()
        if type(t) is V:
            if t.n not in seen:
                seen.add(t.n)
                acc.append(t)
        elif type(t) is tuple:
            for i in range(len(t) - 1, 0, -1):
                stack.append(t[i])
    return acc


def canon(t, m=None):
    """rename variables V(0), V(1), ... by first occurrence (a term, or a
    Python list of terms -> tuple of terms sharing one numbering)"""
    if m is None:
        m = {}

    def fv(v):
        r = m.get(v.n)
        if r is None:
            r = V(len(m))
            m[v.n] = r
        return r
    if isinstance(t, list):
        return tuple(_map_vars(x, fv) for x in t)
    return _map_vars(t, fv)


def formal_of(ball):
    """error(Formal, _) -> Formal, anything else -> ('$ball', ball)  (same convention as terms.error_formal)"""
    if type(ball) is tuple and len(ball) == 3 and ball[0] == "error":
        return ball[1]
    return ("$ball", ball)


def same(a, b):
    """structural identity of two resolved terms (int 1 and float 1.0 differ)"""
    stack = [(a, b)]
    while stack:
        a, b = stack.pop()
        if type(a) is not type(b):
            return False
        if type(a) is tuple:
            if len(a) != len(b) or a[0] != b[0]:
                return False
            stack.extend(zip(a[1:], b[1:]))
        elif a != b:
            return False
    return True


def _is_callable(t):
    return type(t) is str or (type(t) is tuple and type(t[0]) is str)


def _is_number(t):
    return type(t) is int or type(t) is float


def _pi(name, arity):
    return ("/", name, arity)


def _type_rank(t):
    # standard order: Var < Number < Atom < Compound (Scryer: floats before integers)
    if type(t) is V:
        return 0
    if type(t) is float:
        return 1
    if type(t) is int:
        return 2
    if type(t) is str:
        return 3
    return 4


def compare_terms(a, b):
    """standard order of two resolved terms -> -1, 0, 1 (variables by name)"""
    ra, rb = _type_rank(a), _type_rank(b)
    if ra in (1, 2) and rb in (1, 2):
        if a != b:
            return -1 if a < b else 1
        return (ra > rb) - (ra < rb)
    if ra != rb:
        return -1 if ra < rb else 1
    if ra == 0:
        ka, kb = (str(type(a.n)), a.n), (str(type(b.n)), b.n)
        return (ka > kb) - (ka < kb)
    if ra == 3:
        return (a > b) - (a < b)
    if ra == 4:
        if len(a) != len(b):
            return -1 if len(a) < len(b) else 1
        if a[0] != b[0]:
            return -1 if a[0] < b[0] else 1
        for x, y in zip(a[1:], b[1:]):
            c = compare_terms(x, y)
            if c:
                return c
        return 0
    return (a > b) - (a < b)


# ---------------------------------------------------------------------------
# the interpreter

class RefProlog(object):
    def __init__(self, clauses=(), dynamic=(), quirks=()):
        self.quirks = frozenset(quirks)
        self.call_ite_cond_transparent = "call_ite_cond_cut" in self.quirks
        self.preds = {}
        self.gen = 0
        self.varctr = 0
        self.output = []
        self.bb = {}
        self.stats = {}
        self.last_status = None
        self.det_builtins = dict(_DET)
        self.nondet_builtins = dict(_NONDET)
        for (n, a) in dynamic:
            self.declare_dynamic(n, a)
        for c in clauses:
            self.add_clause(c)

    def fork(self, clauses=(), quirks=None):
        """a cheap copy sharing this interpreter's *static* predicates (they must not be
        modified through the copy) plus `clauses`; dynamic predicates are copied.  Used to
        run many small programs over one set of helper predicates."""
        r = RefProlog.__new__(RefProlog)
        r.quirks = self.quirks if quirks is None else frozenset(quirks)
        r.call_ite_cond_transparent = "call_ite_cond_cut" in r.quirks
        r.preds = {}
        for k, p in self.preds.items():
            if p.dynamic:
                q = _Pred(True)
                q.clauses = list(p.clauses)
                r.preds[k] = q
            else:
                r.preds[k] = p
        r.gen = self.gen
        r.varctr = 0
        r.output = []
        r.bb = dict(self.bb)
        r.stats = {}
        r.last_status = None
        r.det_builtins = dict(self.det_builtins)
        r.nondet_builtins = dict(self.nondet_builtins)
        for c in clauses:
            r.add_clause(c)
        return r

    # -- database ---------------------------------------------------------
    def declare_dynamic(self, name, arity):
        key = (name, arity)
        if key not in self.preds:
            self.preds[key] = _Pred(True)
        else:
            self.preds[key].dynamic = True

    def _directive(self, d):
        if type(d) is tuple and d[0] in ("dynamic", "discontiguous") and len(d) == 2:
            if d[0] == "dynamic":
                for pi in _pi_list(d[1]):
                    self.declare_dynamic(pi[1], pi[2])
            return
        raise ValueError("unsupported directive %r" % (d,))

    def add_clause(self, term, front=False, dynamic=False):
        if type(term) is tuple and term[0] == ":-" and len(term) == 2:
            self._directive(term[1])
            return
        if type(term) is tuple and term[0] == ":-" and len(term) == 3:
            head, body = term[1], term[2]
        else:
            head, body = term, "true"
        if not _is_callable(head):
            raise ValueError("bad clause head %r" % (head,))
        key = (head, 0) if type(head) is str else (head[0], len(head) - 1)
        p = self.preds.get(key)
        if p is None:
            p = self.preds[key] = _Pred(dynamic)
        if "body_cond_cut" in self.quirks:
            body = deviant_body(body, "not_cut_free" in self.quirks)
        vs = term_vars(("c", head, body))
        m = {v.n: V(i) for i, v in enumerate(vs)}
        self.gen += 1
        c = _Clause(_subst_vars(head, m), _subst_vars(body, m), len(vs), self.gen)
        if front:
            p.clauses.insert(0, c)
        else:
            p.clauses.append(c)
        return c

    def listing(self, name, arity):
        p = self.preds.get((name, arity))
        if p is None:
            return []
        return [(c.head, c.body) for c in p.clauses if c.death is None]

    def register_det(self, name, arity, fn):
        self.det_builtins[(name, arity)] = fn

    def register_nondet(self, name, arity, fn):
        self.nondet_builtins[(name, arity)] = fn

    # -- solving ----------------------------------------------------------
    def solve(self, goal, max_solutions=64, max_steps=100000):
        answers = []
        it = self.solve_iter(goal, max_steps)
        status = None
        for a in it:
            answers.append(a)
            if len(answers) >= max_solutions:
                status = "cap"
                it.close()
                break
        if status is None:
            status = self.last_status
        self.last_status = status
        return answers, status

    def solve_iter(self, goal, max_steps=100000):
        qvars = term_vars(goal)
        run = _Run(self, max_steps)
        self.last_status = None
        try:
            for s in run.solutions(goal, {}):
                yield canon([_resolve(v, s) for v in qvars])
            self.last_status = "done"
        except PrologThrow as e:
            self.last_status = ("exc", canon(e.ball))
        except _Budget:
            self.last_status = "budget"
        except _STO:
            self.last_status = "sto"
        finally:
            self.stats = run.stats()

    def fresh(self):
        self.varctr += 1
        return V(self.varctr)


def deviant_body(b, not_cut_free=False):
    """Deviation models of the compiler of the tree under test (DESIGN section 8).

    "body_cond_cut" (D30): the condition of an if-then(-else) written in a
    clause body is compiled inline with the enclosing cut barrier (transparent
    to cut), and \\+ G compiles G inline with a barrier local to the \\+.  Goals
    passed to call/N, findall/3, catch/3 ... are not touched (meta-called).

    not_cut_free ("not_cut_free"): codegen frees the cut variable of a \\+ after
    a `!` inside it; when a later nested \\+ / if-then-else reuses the slot, the
    final cut of the outer \\+ no longer cuts: \\+ G behaves as (G, fail ; true)."""
    if type(b) is tuple and len(b) == 3:
        f = b[0]
        if f == ",":
            return (",", deviant_body(b[1], not_cut_free), deviant_body(b[2], not_cut_free))
        if f == ";":
            l = b[1]
            if type(l) is tuple and len(l) == 3 and l[0] == "->":
                return ("$ite_t", deviant_body(l[1], not_cut_free), deviant_body(l[2], not_cut_free),
                        deviant_body(b[2], not_cut_free))
            return (";", deviant_body(b[1], not_cut_free), deviant_body(b[2], not_cut_free))
        if f == "->":
            return ("$it_t", deviant_body(b[1], not_cut_free), deviant_body(b[2], not_cut_free))
    if type(b) is tuple and len(b) == 2 and b[0] == "\\+":
        if not_cut_free and _cut_then_branch(b[1]):
            return ("$not_nocut", deviant_body(b[1], not_cut_free))
        return ("$not_t", deviant_body(b[1], not_cut_free))
    return b


def _cut_then_branch(g):
    """inside the inline scope of a \\+: is a cut owned by it followed, in code
    order, by a nested \\+ or if-then-else (which allocates a new cut-point slot)?"""
    ev = []

    def walk(t, in_disj):
        if t == "!":
            ev.append("cut")
            return
        if type(t) is not tuple:
            return
        if len(t) == 3 and t[0] == ",":
            walk(t[1], in_disj)
            walk(t[2], in_disj)
        elif len(t) == 3 and t[0] == "->":
            if in_disj:
                ev.append("branch")   # an if-then inside a disjunction branch starts in a new chunk
            walk(t[1], in_disj)
            walk(t[2], in_disj)
        elif len(t) == 3 and t[0] == ";":
            l = t[1]
            if type(l) is tuple and len(l) == 3 and l[0] == "->":
                ev.append("branch")
                walk(l[1], True)
                walk(l[2], True)
            else:
                walk(l, True)
            walk(t[2], True)
        elif len(t) == 2 and t[0] == "\\+":
            ev.append("branch")
    walk(g, False)
    return "cut" in ev and "branch" in ev[ev.index("cut"):]


def _pi_list(t):
    out = []
    if type(t) is tuple and t[0] == "," and len(t) == 3:
        return _pi_list(t[1]) + _pi_list(t[2])
    if type(t) is tuple and t[0] == "." and len(t) == 3:
        el, _ = unlist(t)
        for e in el:
            out += _pi_list(e)
        return out
    if type(t) is tuple and t[0] == "/" and len(t) == 3:
        return [t]
    raise ValueError("bad predicate indicator %r" % (t,))


def _subst_vars(t, m):
    return _map_vars(t, lambda v: m[v.n])


def _rename(t, fresh):
    if type(t) is V:
        return fresh[t.n]
    if type(t) is tuple:
        return (t[0],) + tuple([_rename(a, fresh) for a in t[1:]])
    return t


class _Run(object):
    """one execution (a query, or a nested run for a cleanup handler)"""

    def __init__(self, ref, max_steps, parent=None):
        self.ref = ref
        self.parent = parent
        self.root = parent.root if parent else self
        if parent is None:
            self.steps = 0
            self.max_steps = max_steps
            self.n_backtracks = 0
            self.n_cuts = 0
            self.n_cleanups = 0
            self.n_catches = 0
            self.max_cps = 0
        self.s = {}
        self.shared = True
        self.cps = []
        self.goals = None

    def stats(self):
        r = self.root
        return {"steps": r.steps, "backtracks": r.n_backtracks, "cuts_nonempty": r.n_cuts,
                "cleanups_run": r.n_cleanups, "catches": r.n_catches, "max_cps": r.max_cps}

    # -- substitution -----------------------------------------------------
    def snap(self):
        """a reference to the current substitution that will never change"""
        self.shared = True
        return self.s

    def restore(self, s):
        # global variables written by bb_b_put since the state being restored are put back
        # (newest first), exactly like trail entries; everything else is just the old dict
        cur = self.s.get("$bbtrail")
        tgt = s.get("$bbtrail")
        while cur is not tgt and cur is not None:
            k, old, cur = cur
            self.ref.bb[k] = (self.ref.bb[k][0], old)
        self.s = s
        self.shared = True

    def bind(self, n, t):
        if type(t) is tuple and self.occurs(n, t):
            raise _STO()
        if self.shared:
            self.s = dict(self.s)
            self.shared = False
        self.s[n] = t

    def occurs(self, n, t):
        s = self.s
        stack = [t]
        while stack:
            t = _deref(stack.pop(), s)
            if type(t) is V:
                if t.n == n:
                    return True
            elif type(t) is tuple:
                stack.extend(t[1:])
        return False

    def deref(self, t):
        return _deref(t, self.s)

    def resolve(self, t):
        return _resolve(t, self.s)

    def unify(self, a, b):
        stack = [(a, b)]
        while stack:
            a, b = stack.pop()
            s = self.s
            a = _deref(a, s)
            b = _deref(b, s)
            if a is b:
                continue
            ta = type(a)
            tb = type(b)
            if ta is V:
                if tb is V and a.n == b.n:
                    continue
                self.bind(a.n, b)
            elif tb is V:
                self.bind(b.n, a)
            elif ta is tuple:
                if tb is not tuple or len(a) != len(b) or a[0] != b[0]:
                    return False
                for i in range(len(a) - 1, 0, -1):
                    stack.append((a[i], b[i]))
            else:
                if ta is not tb or a != b:
                    return False
        return True

    def unifiable(self, a, b):
        """trial unification that leaves the current substitution untouched"""
        s0 = self.snap()
        r = self.unify(a, b)
        self.restore(s0)
        return r

    def fresh(self):
        return self.ref.fresh()

    def copy_fresh(self, t):
        """resolved copy of t with all its variables renamed apart"""
        t = self.resolve(t)
        m = {}
        for v in term_vars(t):
            m[v.n] = self.fresh()
        return _subst_vars(t, m) if m else t

    # -- errors -----------------------------------------------------------
    def err(self, formal):
        return PrologThrow(("error", formal, self.fresh()))

    def inst_err(self):
        return self.err("instantiation_error")

    def type_err(self, typ, culprit):
        return self.err(("type_error", typ, self.resolve(culprit)))

    # -- main loop --------------------------------------------------------
    def solutions(self, goal, subst):
        """generator of substitutions, one per solution of call(goal)"""
        self.s = subst
        self.shared = True
        self.s0 = subst
        self.cps = []
        self.goals = (("call", goal), 0, None)
        root = self.root
        resume = False
        while True:
            try:
                if resume:
                    resume = False
                    if not self.backtrack():
                        self.restore(self.s0)   # final failure undoes everything (bb_b_put included)
                        return
                    continue
                if self.goals is None:
                    resume = True
                    yield self.snap()
                    continue
                root.steps += 1
                if root.steps > root.max_steps:
                    raise _Budget()
                goal, cb, nxt = self.goals
                if not self.step(goal, cb, nxt):
                    resume = True
            except PrologThrow as e:
                resume = False
                self.handle_throw(e.ball)  # re-raises when nothing catches it

    def push_cp(self, cp):
        self.cps.append(cp)
        if len(self.cps) > self.root.max_cps:
            self.root.max_cps = len(self.cps)

    def backtrack(self):
        """resume the youngest choice point; False when there is none"""
        cps = self.cps
        root = self.root
        while cps:
            cp = cps[-1]
            kind = cp[0]
            if kind == _ALT:
                cps.pop()
                self.restore(cp[1])
                self.goals = cp[2]
                root.n_backtracks += 1
                return True
            if kind == _CLAUSES:
                # (kind, subst, goal, cands, idx, next)
                _, s, goal, cands, idx, nxt = cp
                self.restore(s)
                root.n_backtracks += 1
                if idx + 1 >= len(cands):
                    cps.pop()
                else:
                    cps[-1] = (_CLAUSES, s, goal, cands, idx + 1, nxt)
                if self.try_clause(goal, cands[idx], nxt, len(cps) if idx + 1 >= len(cands) else len(cps) - 1):
                    return True
                continue
            if kind == _CLEANUP:
                cps.pop()
                rec = cp[2]
                self.restore(cp[1])
                self.goals = ("fail", 0, rec.next)  # context for an exception raised by the cleanup
                self.run_cleanup(rec, rec.subst)
                continue
            if kind == _FINDALL:
                # (kind, subst, acc, result, next, tail)
                cps.pop()
                self.restore(cp[1])
                root.n_backtracks += 1
                if self.unify(cp[3], mklist(cp[2], cp[5])):
                    self.goals = cp[4]
                    return True
                continue
            if kind == _RETRY:
                # (kind, subst, iterator, next)
                self.restore(cp[1])
                self.goals = cp[3]
                if cp[4]:
                    root.n_backtracks += 1
                else:
                    cps[-1] = cp[:4] + (True,)  # first entry is not a backtrack
                try:
                    thunk = next(cp[2])
                except StopIteration:
                    cps.pop()
                    continue
                last = getattr(thunk, "last", False)
                if last:
                    cps.pop()
                self.goals = cp[3]
                if thunk():
                    return True
                continue
            raise AssertionError(kind)
        return False

    def cut_to(self, height):
        cps = self.cps
        if len(cps) > height:
            self.root.n_cuts += 1
            pending = []
            while len(cps) > height:
                cp = cps.pop()
                if cp[0] == _CLEANUP:
                    pending.append(cp[2])
            for rec in pending:
                self.run_cleanup(rec, self.s)

    def run_cleanup(self, rec, subst):
        if rec.done:
            return
        rec.done = True
        self.root.n_cleanups += 1
        sub = _Run(self.ref, 0, parent=self)
        s0 = self.snap() if subst is self.s else subst
        for _ in sub.solutions(rec.cleanup, s0):
            break
        # bindings made by the cleanup are discarded; its exceptions propagate

    def handle_throw(self, ball):
        """unwind to the innermost active catch/3 whose catcher unifies"""
        fr = self.goals
        while fr is not None:
            g = fr[0]
            if type(g) is _I and g.op == "catch_exit":
                rec = g.a
                # discard the choice points created inside the protected goal
                try:
                    self.unwind_cps(rec.height)
                except PrologThrow as e2:
                    ball = e2.ball  # a cleanup handler raised: its ball replaces the old one
                self.restore(rec.subst)
                if self.unify(rec.catcher, ball):
                    self.root.n_catches += 1
                    self.goals = (("call", rec.recovery), 0, rec.next)
                    return
                self.restore(rec.subst)
            fr = fr[2]
        self.unwind_cps(0)
        self.goals = None
        self.restore(self.s0)
        raise PrologThrow(ball)

    def unwind_cps(self, height):
        cps = self.cps
        while len(cps) > height:
            cp = cps.pop()
            if cp[0] == _CLEANUP:
                rec = cp[2]
                self.run_cleanup(rec, rec.subst)

    # -- one resolution step ----------------------------------------------
    def try_clause(self, goal, clause, nxt, height):
        ref = self.ref
        n = clause.nvars
        if n:
            base = ref.varctr
            ref.varctr = base + n
            fresh = [V(base + 1 + i) for i in range(n)]
            head = _rename(clause.head, fresh)
        else:
            head = clause.head
            fresh = None
        if not self.unify(head, goal):
            return False
        body = clause.body
        if body == "true":
            self.goals = nxt
        else:
            if fresh is not None:
                body = _rename(body, fresh)
            self.goals = (body, height, nxt)
        return True

    def step(self, goal, cb, nxt):
        """execute one goal; returns False on failure.  cb = cut barrier of the
        clause body this goal belongs to"""
        tg = type(goal)
        if tg is V:
            goal = _deref(goal, self.s)
            tg = type(goal)
            if tg is V:
                raise self.inst_err()
            goal = ("call", goal)
            tg = tuple
        if tg is _I:
            return self.step_internal(goal, cb, nxt)
        if tg is str:
            name, arity = goal, 0
        elif tg is tuple and type(goal[0]) is str:
            name, arity = goal[0], len(goal) - 1
        else:
            raise self.type_err("callable", goal)

        # ---- control constructs
        if arity == 2:
            if name == ",":
                self.goals = (goal[1], cb, (goal[2], cb, nxt))
                return True
            if name == ";":
                lhs = _deref(goal[1], self.s)
                h = len(self.cps)
                if type(lhs) is tuple and len(lhs) == 3 and lhs[0] == "->":
                    # if-then-else: the condition is opaque to cut, then/else transparent
                    self.push_cp((_ALT, self.snap(), (goal[2], cb, nxt)))
                    cond_cb = cb if self.ref.call_ite_cond_transparent else h + 1
                    self.goals = (lhs[1], cond_cb, (_I("cut", h), cb, (lhs[2], cb, nxt)))
                    return True
                if type(lhs) is tuple and len(lhs) == 3 and lhs[0] == "*->":
                    self.push_cp((_ALT, self.snap(), (goal[2], cb, nxt)))
                    self.goals = (lhs[1], h + 1, (_I("softcut", h), cb, (lhs[2], cb, nxt)))
                    return True
                self.push_cp((_ALT, self.snap(), (goal[2], cb, nxt)))
                self.goals = (goal[1], cb, nxt)
                return True
            if name == "->":
                h = len(self.cps)
                self.goals = (goal[1], h, (_I("cut", h), cb, (goal[2], cb, nxt)))
                return True
            if name == "*->":
                self.goals = (goal[1], len(self.cps), (goal[2], cb, nxt))
                return True
        if arity == 0:
            if name == "true":
                self.goals = nxt
                return True
            if name == "!":
                self.cut_to(cb)
                self.goals = nxt
                return True
            if name == "fail" or name == "false":
                return False
        elif name == "call":
            return self.do_call(goal, nxt)
        elif arity == 1:
            if name == "\\+":
                h = len(self.cps)
                self.push_cp((_ALT, self.snap(), nxt))
                self.goals = (("call", goal[1]), cb, (_I("cut", h), cb, ("fail", cb, nxt)))
                return True
            if name == "once":
                h = len(self.cps)
                self.goals = (("call", goal[1]), cb, (_I("cut", h), cb, nxt))
                return True
            if name == "ignore":
                h = len(self.cps)
                self.push_cp((_ALT, self.snap(), nxt))
                self.goals = (("call", goal[1]), cb, (_I("cut", h), cb, nxt))
                return True
            if name == "throw":
                b = _deref(goal[1], self.s)
                if type(b) is V:
                    raise self.inst_err()
                raise PrologThrow(self.copy_fresh(b))
        elif arity == 3:
            if name == "catch":
                rec = _CatchRec()
                rec.catcher = goal[2]
                rec.recovery = goal[3]
                rec.subst = self.snap()
                rec.height = len(self.cps)
                rec.next = nxt
                self.goals = (("call", goal[1]), cb, (_I("catch_exit", rec), cb, nxt))
                return True
            if name == "findall":
                return self.do_findall(goal[1], goal[2], goal[3], NIL, nxt)
            if name == "setup_call_cleanup":
                h = len(self.cps)
                self.goals = (("call", goal[1]), cb, (_I("cut", h), cb, (_I("scc_enter", goal[2], goal[3]), cb, nxt)))
                return True
        if arity == 2:
            if name == "forall":
                self.goals = (("\\+", (",", ("call", goal[1]), ("\\+", ("call", goal[2])))), cb, nxt)
                return True
            if name == "call_cleanup":
                self.goals = (_I("scc_enter", goal[1], goal[2]), cb, nxt)
                return True
        if arity == 4 and name == "findall":
            return self.do_findall(goal[1], goal[2], goal[3], goal[4], nxt)
        if name[:1] == "$":
            # deviation-model constructs produced by deviant_body/1 (never by user programs)
            if name == "$ite_t":      # if-then-else whose condition is transparent to cut
                h = len(self.cps)
                self.push_cp((_ALT, self.snap(), (goal[3], cb, nxt)))
                self.goals = (goal[1], cb, (_I("cut", h), cb, (goal[2], cb, nxt)))
                return True
            if name == "$it_t":       # if-then whose condition is transparent to cut
                h = len(self.cps)
                self.goals = (goal[1], cb, (_I("cut", h), cb, (goal[2], cb, nxt)))
                return True
            if name == "$not_nocut":  # \\+ whose final cut is lost: (G, fail ; true)
                h = len(self.cps)
                self.push_cp((_ALT, self.snap(), nxt))
                self.goals = (goal[1], h + 1, ("fail", cb, nxt))
                return True
            if name == "$not_t":      # \+ with an inlined goal: cut inside is local to the \+
                h = len(self.cps)
                self.push_cp((_ALT, self.snap(), nxt))
                self.goals = (goal[1], h + 1, (_I("cut", h), cb, ("fail", cb, nxt)))
                return True

        key = (name, arity)
        # ---- user predicates (take precedence so that programs may define helpers)
        p = self.ref.preds.get(key)
        if p is not None:
            cands = [c for c in p.clauses if c.death is None]
            if not cands:
                return False
            if len(cands) == 1:
                return self.try_clause(goal, cands[0], nxt, len(self.cps))
            h = len(self.cps)
            self.push_cp((_CLAUSES, self.snap(), goal, cands, 1, nxt))
            if self.try_clause(goal, cands[0], nxt, h):
                return True
            return False
        # ---- builtins
        f = self.ref.det_builtins.get(key)
        if f is not None:
            if f(self, goal[1:] if arity else ()):
                self.goals = nxt
                return True
            return False
        f = self.ref.nondet_builtins.get(key)
        if f is not None:
            it = f(self, goal[1:] if arity else ())
            self.push_cp((_RETRY, self.snap(), it, nxt, False))
            return False  # enter through the retry path
        raise self.err(("existence_error", "procedure", _pi(name, arity)))

    def step_internal(self, g, cb, nxt):
        op = g.op
        if op == "cut":
            self.cut_to(g.a)
            self.goals = nxt
            return True
        if op == "softcut":
            # remove only the else-alternative pushed at height g.a
            cps = self.cps
            if len(cps) > g.a:
                cp = cps[g.a]
                # neutralise it: an ALT whose continuation fails
                cps[g.a] = (_ALT, cp[1], ("fail", 0, None))
            self.goals = nxt
            return True
        if op == "catch_exit":
            self.goals = nxt
            return True
        if op == "findall_push":
            g.a.append(self.copy_fresh(g.b))
            return False
        if op == "scc_enter":
            c = _deref(g.b, self.s)
            if type(c) is V:
                raise self.inst_err()
            rec = _SccRec()
            rec.cleanup = g.b
            rec.subst = self.snap()
            rec.done = False
            rec.next = nxt
            self.push_cp((_CLEANUP, rec.subst, rec))
            self.goals = (("call", g.a), cb, (_I("scc_exit", rec), cb, nxt))
            return True
        if op == "scc_exit":
            rec = g.a
            cps = self.cps
            if cps and cps[-1][0] == _CLEANUP and cps[-1][2] is rec:
                cps.pop()
                self.goals = nxt
                self.run_cleanup(rec, self.s)
                return True
            self.goals = nxt
            return True
        raise AssertionError(op)

    def do_call(self, goal, nxt):
        g = _deref(goal[1], self.s)
        if len(goal) > 2:
            extra = goal[2:]
            if type(g) is V:
                raise self.inst_err()
            if type(g) is str:
                g = (g,) + tuple(extra)
            elif type(g) is tuple and type(g[0]) is str:
                g = g + tuple(extra)
            else:
                raise self.type_err("callable", g)
        if type(g) is V:
            raise self.inst_err()
        if not _is_callable(g):
            raise self.type_err("callable", g)
        bad = self.body_check(g)
        if bad:
            raise self.type_err("callable", g)
        self.goals = (g, len(self.cps), nxt)
        return True

    def body_check(self, g):
        """True if g, converted to a body, contains a non-callable control operand"""
        g = _deref(g, self.s)
        if type(g) is V:
            return False
        if type(g) is tuple and len(g) == 3 and g[0] in (",", ";", "->", "*->"):
            return self.body_check(g[1]) or self.body_check(g[2])
        return not _is_callable(g)

    def do_findall(self, template, g, result, tail, nxt):
        r = _deref(result, self.s)
        # ISO: result must be a partial list
        el, tl = unlist(self.resolve(r))
        if not (type(tl) is V or tl == NIL):
            raise self.type_err("list", r)
        acc = []
        self.push_cp((_FINDALL, self.snap(), acc, result, nxt, tail))
        # nxt is linked after findall_push only so that a throw finds the enclosing
        # catch/3 frames; findall_push always fails, so it is never executed from here
        self.goals = (("call", g), 0, (_I("findall_push", acc, template), 0, nxt))
        return True


# ---------------------------------------------------------------------------
# arithmetic (integers; floats carried through the four operations)

def _idiv_trunc(a, b):
    q = abs(a) // abs(b)
    return q if (a >= 0) == (b >= 0) else -q


def eval_arith(e, t):
    t = e.deref(t)
    tt = type(t)
    if tt is int or tt is float:
        return t
    if tt is V:
        raise e.inst_err()
    if tt is str:
        raise e.type_err("evaluable", _pi(t, 0))
    if tt is not tuple:
        raise e.type_err("evaluable", t)
    name = t[0]
    n = len(t) - 1
    if n == 2 and name == "." and e.deref(t[2]) == NIL:
        return eval_arith(e, t[1])
    if n == 1:
        x = eval_arith(e, t[1])
        if name == "-":
            return -x
        if name == "+":
            return x
        if name == "abs":
            return abs(x)
        if name == "sign":
            return (x > 0) - (x < 0) if type(x) is int else float((x > 0) - (x < 0))
        if name == "\\":
            _need_int(e, x)
            return ~x
        if name == "msb":
            _need_int(e, x)
            return x.bit_length() - 1
        raise e.type_err("evaluable", _pi(name, 1))
    if n == 2:
        x = eval_arith(e, t[1])
        y = eval_arith(e, t[2])
        if name == "+":
            return x + y
        if name == "-":
            return x - y
        if name == "*":
            return x * y
        if name == "/":
            if y == 0 and type(y) is int:
                raise e.err(("evaluation_error", "zero_divisor"))
            if type(x) is int and type(y) is int and x % y == 0:
                return x // y
            if y == 0:
                raise e.err(("evaluation_error", "zero_divisor"))
            return x / y
        if name in ("//", "mod", "rem", "div", ">>", "<<", "/\\", "\\/", "xor", "gcd"):
            _need_int(e, x)
            _need_int(e, y)
            if name in ("//", "mod", "rem", "div") and y == 0:
                raise e.err(("evaluation_error", "zero_divisor"))
            if name == "//":
                return _idiv_trunc(x, y)
            if name == "rem":
                return x - y * _idiv_trunc(x, y)
            if name == "div":
                return x // y
            if name == "mod":
                return x % y
            if name == ">>":
                return x >> y if y >= 0 else x << -y
            if name == "<<":
                return x << y if y >= 0 else x >> -y
            if name == "/\\":
                return x & y
            if name == "\\/":
                return x | y
            if name == "xor":
                return x ^ y
            if name == "gcd":
                import math
                return math.gcd(x, y)
        if name == "min":
            return x if x <= y else y
        if name == "max":
            return x if x >= y else y
        if name == "^" or name == "**":
            if type(x) is int and type(y) is int:
                if y < 0:
                    if x in (1, -1):
                        return x ** (-y)
                    if x == 0:
                        raise e.err(("evaluation_error", "undefined"))
                    raise e.type_err("float", x)
                return x ** y
            return float(x) ** float(y)
        raise e.type_err("evaluable", _pi(name, 2))
    raise e.type_err("evaluable", _pi(name, n))


def _need_int(e, x):
    if type(x) is not int:
        raise e.type_err("integer", x)


def _arith_cmp(op):
    def f(e, a):
        x = eval_arith(e, a[0])
        y = eval_arith(e, a[1])
        return op(x, y)
    return f


# ---------------------------------------------------------------------------
# deterministic builtins: fn(engine, args) -> bool

def _bi_unify(e, a):
    return e.unify(a[0], a[1])


def _bi_not_unify(e, a):
    return not e.unifiable(a[0], a[1])


def _bi_eq(e, a):
    return same(e.resolve(a[0]), e.resolve(a[1]))


def _bi_neq(e, a):
    return not same(e.resolve(a[0]), e.resolve(a[1]))


def _bi_is(e, a):
    return e.unify(a[0], eval_arith(e, a[1]))


def _type_test(pred):
    def f(e, a):
        return pred(e.deref(a[0]))
    return f


def _bi_is_list(e, a):
    el, tl = unlist(e.resolve(a[0]))
    return tl == NIL


def _bi_ground(e, a):
    return not term_vars(e.resolve(a[0]))


def _bi_functor(e, a):
    t = e.deref(a[0])
    if type(t) is V:
        n = e.deref(a[1])
        ar = e.deref(a[2])
        if type(n) is V or type(ar) is V:
            raise e.inst_err()
        if type(ar) is not int:
            raise e.type_err("integer", ar)
        if ar < 0:
            raise e.err(("domain_error", "not_less_than_zero", ar))
        if ar == 0:
            if type(n) is tuple:
                raise e.type_err("atomic", n)
            return e.unify(t, n)
        if type(n) is tuple:
            raise e.type_err("atomic", n)
        if type(n) is not str:
            raise e.type_err("atom", n)
        return e.unify(t, (n,) + tuple(e.fresh() for _ in range(ar)))
    if type(t) is tuple:
        return e.unify(a[1], t[0]) and e.unify(a[2], len(t) - 1)
    return e.unify(a[1], t) and e.unify(a[2], 0)


def _bi_arg(e, a):
    n = e.deref(a[0])
    t = e.deref(a[1])
    if type(t) is V:
        raise e.inst_err()
    if type(t) is not tuple:
        raise e.type_err("compound", t)
    if type(n) is V:
        raise e.inst_err()  # enumeration is provided by the nondet variant below
    if type(n) is not int:
        raise e.type_err("integer", n)
    if n < 1 or n > len(t) - 1:
        return False
    return e.unify(a[2], t[n])


def _bi_univ(e, a):
    t = e.deref(a[0])
    if type(t) is V:
        l = e.resolve(a[1])
        el, tl = unlist(l)
        if type(tl) is V:
            raise e.inst_err()
        if tl != NIL:
            raise e.type_err("list", l)
        if not el:
            raise e.err(("domain_error", "non_empty_list", NIL))
        h = el[0]
        if type(h) is V:
            raise e.inst_err()
        if len(el) == 1:
            if type(h) is tuple:
                raise e.type_err("atomic", h)
            return e.unify(t, h)
        if type(h) is tuple:
            raise e.type_err("atomic", h)
        if type(h) is not str:
            raise e.type_err("atom", h)
        return e.unify(t, (h,) + tuple(el[1:]))
    if type(t) is tuple:
        return e.unify(a[1], mklist([t[0]] + list(t[1:])))
    return e.unify(a[1], mklist([t]))


def _bi_copy_term(e, a):
    return e.unify(a[1], e.copy_fresh(a[0]))


def _bi_compare(e, a):
    c = compare_terms(e.resolve(a[1]), e.resolve(a[2]))
    return e.unify(a[0], "<" if c < 0 else (">" if c > 0 else "="))


def _ord_test(pred):
    def f(e, a):
        return pred(compare_terms(e.resolve(a[0]), e.resolve(a[1])))
    return f


def _clause_parts(e, t):
    t = e.resolve(t)
    if type(t) is V:
        raise e.inst_err()
    if type(t) is tuple and t[0] == ":-" and len(t) == 3:
        h, b = t[1], t[2]
    else:
        h, b = t, "true"
    if type(h) is V:
        raise e.inst_err()
    if not _is_callable(h):
        raise e.type_err("callable", h)
    if type(b) is V:
        b = ("call", b)
    elif not _is_callable(b):
        raise e.type_err("callable", b)
    return h, b


def _key_of(h):
    return (h, 0) if type(h) is str else (h[0], len(h) - 1)


_CONTROL = {(",", 2), (";", 2), ("->", 2), ("!", 0), ("call", 1), ("true", 0), ("fail", 0), ("=", 2),
            ("catch", 3), ("throw", 1), ("findall", 3), ("\\+", 1), ("is", 2)}


def _modifiable(e, h, what="modify"):
    key = _key_of(h)
    p = e.ref.preds.get(key)
    if p is None and (key in _CONTROL or key in e.ref.det_builtins or key in e.ref.nondet_builtins):
        raise e.err(("permission_error", what, "static_procedure", _pi(*key)))
    if p is not None and not p.dynamic:
        raise e.err(("permission_error", what, "static_procedure", _pi(*key)))
    return p


def _assert(front):
    def f(e, a):
        h, b = _clause_parts(e, a[0])
        _modifiable(e, h)
        e.ref.add_clause((":-", h, b), front=front, dynamic=True)
        return True
    return f


def _bi_retractall(e, a):
    h = e.deref(a[0])
    if type(h) is V:
        raise e.inst_err()
    if not _is_callable(h):
        raise e.type_err("callable", h)
    p = _modifiable(e, h)
    key = _key_of(h)
    if p is None:
        e.ref.declare_dynamic(*key)
        return True
    for c in [c for c in p.clauses if c.death is None]:
        fresh = [e.fresh() for _ in range(c.nvars)]
        if e.unifiable(_rename(c.head, fresh), h):
            e.ref.gen += 1
            c.death = e.ref.gen
    p.clauses = [c for c in p.clauses if c.death is None]
    return True


def _bi_abolish(e, a):
    pi = e.resolve(a[0])
    if type(pi) is V:
        raise e.inst_err()
    if not (type(pi) is tuple and pi[0] == "/" and len(pi) == 3):
        raise e.type_err("predicate_indicator", pi)
    n, ar = pi[1], pi[2]
    if type(n) is V or type(ar) is V:
        raise e.inst_err()
    p = e.ref.preds.get((n, ar))
    if p is None:
        return True
    if not p.dynamic:
        raise e.err(("permission_error", "modify", "static_procedure", pi))
    for c in p.clauses:
        if c.death is None:
            e.ref.gen += 1
            c.death = e.ref.gen
    del e.ref.preds[(n, ar)]
    return True


def _bi_write(e, a):
    e.ref.output.append(canon(e.resolve(a[0])))
    return True


def _bi_nl(e, a):
    e.ref.output.append("\n")
    return True


def _bi_atom_length(e, a):
    t = e.deref(a[0])
    if type(t) is V:
        raise e.inst_err()
    if type(t) is tuple:
        raise e.type_err("atom", t)
    return e.unify(a[1], len(t) if type(t) is str else len(str(t)))


def _bi_bb_put(e, a):
    # Two slots per key, as in the system under test: a persistent value P (bb_put) and a
    # backtrackable value B (bb_b_put) that shadows it.  bb_put sets P and clears B.
    k = e.deref(a[0])
    e.ref.bb[k] = (e.copy_fresh(a[1]), _MISSING)
    return True


def _bi_bb_get(e, a):
    k = e.deref(a[0])
    pv, bv = e.ref.bb.get(k, (_MISSING, _MISSING))
    v = bv if bv is not _MISSING else pv
    if v is _MISSING:
        return False
    return e.unify(a[1], e.copy_fresh(v))


def _bi_bb_b_put(e, a):
    # bb_b_put sets B and records (key, old B) in a list kept in the persistent substitution;
    # _Run.restore puts the old B back for every record made since the restored state.  So a
    # bb_b_put reverts to the earlier bb_b_put value, or uncovers the bb_put value, and bb_put
    # values persist.  (A bb_put after a bb_b_put on the same key inside a branch that is undone
    # is implementation specific: checks should not rely on it.)
    k = e.deref(a[0])
    pv, bv = e.ref.bb.get(k, (_MISSING, _MISSING))
    e.ref.bb[k] = (pv, e.copy_fresh(a[1]))
    e.bind("$bbtrail", (k, bv, e.s.get("$bbtrail")))
    return True


def _att_parts(e, spec):
    spec = e.deref(spec)
    sign = "+"
    if type(spec) is tuple and len(spec) == 2 and spec[0] in ("+", "-"):
        sign = spec[0]
        spec = e.deref(spec[1])
    if type(spec) is V:
        raise e.inst_err()
    key = (spec, 0) if type(spec) is str else (spec[0], len(spec) - 1)
    return sign, spec, key


def _bi_put_atts(e, a):
    """put_atts(Var, +Attr | Attr | -Attr) for one attribute term; attributes live in the
    substitution under ('$att', var, name/arity), hence revert with backtracking"""
    v = e.deref(a[0])
    if type(v) is not V:
        raise e.err(("uninstantiation_error", e.resolve(v)))
    sign, spec, key = _att_parts(e, a[1])
    e.bind(("$att", v.n, key), None if sign == "-" else e.resolve(spec))
    return True


def _bi_get_atts(e, a):
    v = e.deref(a[0])
    if type(v) is not V:
        raise e.err(("uninstantiation_error", e.resolve(v)))
    sign, spec, key = _att_parts(e, a[1])
    cur = e.s.get(("$att", v.n, key), None)
    if sign == "-":
        return cur is None
    if cur is None:
        return False
    return e.unify(spec, cur)


import operator as _op

_DET = {
    ("=", 2): _bi_unify,
    ("\\=", 2): _bi_not_unify,
    ("==", 2): _bi_eq,
    ("\\==", 2): _bi_neq,
    ("is", 2): _bi_is,
    ("=:=", 2): _arith_cmp(_op.eq),
    ("=\\=", 2): _arith_cmp(_op.ne),
    ("<", 2): _arith_cmp(_op.lt),
    (">", 2): _arith_cmp(_op.gt),
    ("=<", 2): _arith_cmp(_op.le),
    (">=", 2): _arith_cmp(_op.ge),
    ("var", 1): _type_test(lambda t: type(t) is V),
    ("nonvar", 1): _type_test(lambda t: type(t) is not V),
    ("atom", 1): _type_test(lambda t: type(t) is str),
    ("integer", 1): _type_test(lambda t: type(t) is int),
    ("float", 1): _type_test(lambda t: type(t) is float),
    ("number", 1): _type_test(_is_number),
    ("atomic", 1): _type_test(lambda t: type(t) is str or _is_number(t)),
    ("compound", 1): _type_test(lambda t: type(t) is tuple),
    ("callable", 1): _type_test(_is_callable),
    ("is_list", 1): _bi_is_list,
    ("ground", 1): _bi_ground,
    ("functor", 3): _bi_functor,
    ("arg", 3): _bi_arg,
    ("=..", 2): _bi_univ,
    ("copy_term", 2): _bi_copy_term,
    ("compare", 3): _bi_compare,
    ("@<", 2): _ord_test(lambda c: c < 0),
    ("@>", 2): _ord_test(lambda c: c > 0),
    ("@=<", 2): _ord_test(lambda c: c <= 0),
    ("@>=", 2): _ord_test(lambda c: c >= 0),
    ("assertz", 1): _assert(False),
    ("assert", 1): _assert(False),
    ("asserta", 1): _assert(True),
    ("retractall", 1): _bi_retractall,
    ("abolish", 1): _bi_abolish,
    ("write", 1): _bi_write,
    ("print", 1): _bi_write,
    ("writeq", 1): _bi_write,
    ("nl", 0): _bi_nl,
    ("atom_length", 2): _bi_atom_length,
    ("bb_put", 2): _bi_bb_put,
    ("bb_get", 2): _bi_bb_get,
    ("bb_b_put", 2): _bi_bb_b_put,
    ("put_atts", 2): _bi_put_atts,
    ("get_atts", 2): _bi_get_atts,
}


# ---------------------------------------------------------------------------
# non-deterministic builtins: fn(engine, args) -> iterator of thunks

def _thunk(f, last=False):
    f.last = last
    return f


def _nd_between(e, a):
    lo = e.deref(a[0])
    hi = e.deref(a[1])
    x = e.deref(a[2])
    if type(lo) is V or type(hi) is V:
        raise e.inst_err()
    if type(lo) is not int:
        raise e.type_err("integer", lo)
    if type(hi) is not int and hi not in ("inf", "infinite"):
        raise e.type_err("integer", hi)
    if type(x) is not V:
        if type(x) is not int:
            raise e.type_err("integer", x)
        ok = lo <= x and (type(hi) is str or x <= hi)
        return iter([_thunk(lambda: ok, True)])

    def gen():
        i = lo
        while type(hi) is str or i <= hi:
            last = (type(hi) is int and i == hi)
            yield _thunk((lambda v: (lambda: e.unify(a[2], v)))(i), last)
            i += 1
    return gen()


def _nd_clause(e, a):
    h = e.deref(a[0])
    if type(h) is V:
        raise e.inst_err()
    if not _is_callable(h):
        raise e.type_err("callable", h)
    b = e.deref(a[1])
    if not (type(b) is V or _is_callable(b)):
        raise e.type_err("callable", b)
    key = _key_of(h)
    p = e.ref.preds.get(key)
    if p is None:
        if key in _CONTROL or key in e.ref.det_builtins:
            raise e.err(("permission_error", "access", "private_procedure", _pi(*key)))
        return iter([])
    cands = [c for c in p.clauses if c.death is None]

    def gen():
        for i, c in enumerate(cands):
            def t(c=c):
                fresh = [e.fresh() for _ in range(c.nvars)]
                return e.unify(_rename(c.head, fresh), a[0]) and e.unify(_rename(c.body, fresh), a[1])
            yield _thunk(t, i == len(cands) - 1)
    return gen()


def _nd_retract(e, a):
    h, b = _clause_parts(e, a[0])
    t0 = e.deref(a[0])
    has_body = type(t0) is tuple and t0[0] == ":-" and len(t0) == 3
    p = _modifiable(e, h)
    if p is None:
        return iter([])
    cands = [c for c in p.clauses if c.death is None]

    def gen():
        for i, c in enumerate(cands):
            def t(c=c):
                if c.death is not None:
                    return False
                fresh = [e.fresh() for _ in range(c.nvars)]
                if not e.unify(_rename(c.head, fresh), h):
                    return False
                if has_body:
                    if not e.unify(_rename(c.body, fresh), t0[2]):
                        return False
                elif c.body != "true":
                    return False
                e.ref.gen += 1
                c.death = e.ref.gen
                p.clauses = [x for x in p.clauses if x.death is None]
                return True
            yield _thunk(t, i == len(cands) - 1)
    return gen()


def _nd_length(e, a):
    l = e.resolve(a[0])
    n = e.deref(a[1])
    el, tl = unlist(l)
    if type(n) is not V and type(n) is not int:
        raise e.type_err("integer", n)
    if type(n) is int and n < 0:
        raise e.err(("domain_error", "not_less_than_zero", n))
    if tl == NIL:
        return iter([_thunk(lambda: e.unify(a[1], len(el)), True)])
    if type(tl) is not V:
        return iter([])
    if type(n) is int:
        if n < len(el):
            return iter([])
        return iter([_thunk(lambda: e.unify(tl, mklist([e.fresh() for _ in range(n - len(el))])), True)])

    def gen():
        k = len(el)
        while True:
            yield _thunk((lambda k: (lambda: e.unify(tl, mklist([e.fresh() for _ in range(k - len(el))]))
                          and e.unify(a[1], k)))(k))
            k += 1
    return gen()


_NONDET = {
    ("between", 3): _nd_between,
    ("clause", 2): _nd_clause,
    ("retract", 1): _nd_retract,
    ("length", 2): _nd_length,
}


# ---------------------------------------------------------------------------
# a small reader (tests and triage only)

_OPS_INFIX = {
    ":-": (1200, "xfx"), "-->": (1200, "xfx"),
    ";": (1100, "xfy"), "|": (1100, "xfy"), "->": (1050, "xfy"), "*->": (1050, "xfy"),
    ",": (1000, "xfy"),
    "=": (700, "xfx"), "\\=": (700, "xfx"), "==": (700, "xfx"), "\\==": (700, "xfx"),
    "@<": (700, "xfx"), "@>": (700, "xfx"), "@=<": (700, "xfx"), "@>=": (700, "xfx"),
    "=..": (700, "xfx"), "is": (700, "xfx"), "=:=": (700, "xfx"), "=\\=": (700, "xfx"),
    "<": (700, "xfx"), ">": (700, "xfx"), "=<": (700, "xfx"), ">=": (700, "xfx"),
    ":": (200, "xfy"),
    "+": (500, "yfx"), "-": (500, "yfx"), "/\\": (500, "yfx"), "\\/": (500, "yfx"), "xor": (500, "yfx"),
    "*": (400, "yfx"), "/": (400, "yfx"), "//": (400, "yfx"), "mod": (400, "yfx"), "rem": (400, "yfx"),
    "div": (400, "yfx"), "<<": (400, "yfx"), ">>": (400, "yfx"),
    "**": (200, "xfx"), "^": (200, "xfy"),
}
_OPS_PREFIX = {":-": (1200, "fx"), "\\+": (900, "fy"), "-": (200, "fy"), "+": (200, "fy"), "\\": (200, "fy"),
               "dynamic": (1150, "fx"), "discontiguous": (1150, "fx")}

_TOKEN = re.compile(r"""
    (?P<ws>\s+|%[^\n]*) |
    (?P<num>\d+\.\d+(?:[eE][-+]?\d+)?|\d+) |
    (?P<var>[A-Z_][A-Za-z0-9_]*) |
    (?P<atom>[a-z][A-Za-z0-9_]*) |
    (?P<qatom>'(?:[^'\\]|\\.|'')*') |
    (?P<str>"(?:[^"\\]|\\.)*") |
    (?P<punct>\(|\)|\[|\]|\{|\}|,|\||!|;) |
    (?P<sym>[-+*/\\^<>=~:.?@#&$]+)
""", re.X)


def _tokenize(text):
    out = []
    i = 0
    while i < len(text):
        m = _TOKEN.match(text, i)
        if not m:
            raise SyntaxError("bad character %r at %d" % (text[i], i))
        k = m.lastgroup
        tok = m.group(k)
        if k != "ws":
            prev_layout = i > 0 and text[i - 1] in " \t\n" or i == 0
            if k == "sym" and tok == "." and (m.end() == len(text) or text[m.end()] in " \t\n%"):
                out.append(("end", ".", prev_layout))
            else:
                out.append((k, tok, prev_layout))
        i = m.end()
    return out


class _Parser(object):
    def __init__(self, toks):
        self.t = toks
        self.i = 0
        self.anon = 0

    def peek(self):
        return self.t[self.i] if self.i < len(self.t) else ("eof", "", False)

    def next(self):
        x = self.peek()
        self.i += 1
        return x

    def expect(self, v):
        k, tok, _ = self.next()
        if tok != v:
            raise SyntaxError("expected %r got %r" % (v, tok))

    def parse(self, maxp):
        left, lp = self.primary(maxp)
        return self.infix(left, lp, maxp)

    def infix(self, left, lp, maxp):
        while True:
            k, tok, _ = self.peek()
            name = tok if k in ("atom", "sym", "punct") else None
            if k == "punct" and tok not in (",", "|", ";"):
                name = None
            if name in _OPS_INFIX:
                p, typ = _OPS_INFIX[name]
                la = p - 1 if typ[0] == "x" else p
                ra = p - 1 if typ[2] == "x" else p
                if p <= maxp and lp <= la:
                    self.next()
                    right = self.parse(ra)
                    left = (";" if name == "|" else name, left, right)
                    lp = p
                    continue
            return left

    def arglist(self):
        args = [self.parse(999)]
        while self.peek()[1] == "," and self.peek()[0] == "punct":
            self.next()
            args.append(self.parse(999))
        return args

    def primary(self, maxp):
        k, tok, _ = self.next()
        if k == "num":
            return (float(tok) if "." in tok else int(tok)), 0
        if k == "var":
            if tok == "_":
                self.anon += 1
                return V("_%d" % self.anon), 0
            return V(tok), 0
        if k == "str":
            return mklist(list(_unescape(tok[1:-1]))), 0
        if k == "punct":
            if tok == "(":
                t = self.parse(1200)
                self.expect(")")
                return t, 0
            if tok == "[":
                if self.peek()[1] == "]":
                    self.next()
                    return self.after_atom("[]", maxp)
                items = self.arglist()
                tail = NIL
                if self.peek()[1] == "|":
                    self.next()
                    tail = self.parse(999)
                self.expect("]")
                return mklist(items, tail), 0
            if tok == "{":
                if self.peek()[1] == "}":
                    self.next()
                    return self.after_atom("{}", maxp)
                t = self.parse(1200)
                self.expect("}")
                return ("{}", t), 0
            if tok in ("!", ";"):
                return self.after_atom(tok, maxp)
            raise SyntaxError("unexpected %r" % tok)
        if k == "qatom":
            return self.after_atom(_unescape(tok[1:-1]).replace("''", "'"), maxp, quoted=True)
        if k in ("atom", "sym"):
            return self.after_atom(tok, maxp)
        raise SyntaxError("unexpected %r" % (tok,))

    def after_atom(self, name, maxp, quoted=False):
        nk, ntok, nlayout = self.peek()
        if ntok == "(" and nk == "punct" and not nlayout:
            self.next()
            args = self.arglist()
            self.expect(")")
            return (name,) + tuple(args), 0
        if not quoted and name == "-" and nk == "num" and not nlayout:
            self.next()
            return (-(float(ntok) if "." in ntok else int(ntok))), 0
        if not quoted and name in _OPS_PREFIX:
            # an operator as an atom when followed by an infix operator or a closer
            if nk in ("eof", "end") or (nk == "punct" and ntok in (")", "]", "}", ",", "|")) or \
                    (ntok in _OPS_INFIX and nk in ("atom", "sym") and ntok not in _OPS_PREFIX):
                return name, 0
            p, typ = _OPS_PREFIX[name]
            if p > maxp:
                p = 999
            ap = p - 1 if typ == "fx" else p
            arg = self.parse(ap)
            return (name, arg), p
        return name, 0


def _unescape(s):
    return (s.replace("\\n", "\n").replace("\\t", "\t").replace("\\\\", "\\")
            .replace("\\'", "'").replace('\\"', '"'))


def parse(text):
    """one term from text (final '.' optional); variables become V('Name')"""
    toks = _tokenize(text)
    if toks and toks[-1][0] == "end":
        toks = toks[:-1]
    p = _Parser(toks)
    t = p.parse(1200)
    if p.peek()[0] != "eof":
        raise SyntaxError("trailing input at token %r" % (p.peek(),))
    return t


def parse_program(text):
    """list of clause terms from a program text"""
    toks = _tokenize(text)
    out = []
    cur = []
    for tk in toks:
        if tk[0] == "end":
            p = _Parser(cur)
            out.append(p.parse(1200))
            if p.peek()[0] != "eof":
                raise SyntaxError("trailing input at token %r" % (p.peek(),))
            cur = []
        else:
            cur.append(tk)
    if cur:
        raise SyntaxError("missing final '.'")
    return out


# ---------------------------------------------------------------------------
# self test

def _selftest():
    fails = []
    n = [0]

    def show(x):
        if isinstance(x, (list, tuple)) and not (x and type(x[0]) is str):
            return "[" + ", ".join(show(y) for y in x) + "]"
        try:
            return fmt(x)
        except Exception:
            return repr(x)

    def check(prog, goal, want_answers, want_status="done", dynamic=(), cap=64, steps=100000, ref=None):
        """want_answers: list of answer texts; each the tuple of goal variables as a list text"""
        n[0] += 1
        r = ref or RefProlog(parse_program(prog), dynamic=dynamic)
        g = parse(goal)
        ans, st = r.solve(g, cap, steps)
        want = [canon(list(unlist(parse(w))[0])) for w in want_answers]
        if isinstance(want_status, str) and want_status.startswith("exc:"):
            ws = ("exc", parse(want_status[4:]))
            ok_st = st[0] == "exc" and same(canon(formal_of(st[1])), canon(ws[1])) if isinstance(st, tuple) else False
            if not ok_st and isinstance(st, tuple) and same(canon(st[1]), canon(ws[1])):
                ok_st = True
        else:
            ok_st = st == want_status
        ok = ok_st and len(ans) == len(want) and all(same(("t",) + a, ("t",) + w) for a, w in zip(ans, want))
        if not ok:
            fails.append((prog, goal, [show(list(a)) for a in ans], st, want_answers, want_status))
        return r

    q3 = "q(a,1). q(b,2). q(c,3). r(b). r(c)."
    # conjunction, backtracking, order and multiplicity
    check(q3, "q(X,Y)", ["[a,1]", "[b,2]", "[c,3]"])
    check(q3, "q(X,_), r(X)", ["[b,2]", "[c,3]"])
    check(q3, "(q(X,_) ; r(X))", ["[a,1]", "[b,2]", "[c,3]", "[b,_]", "[c,_]"])
    check("p(X) :- X = 1. p(X) :- X = 2. p(3).", "p(X), p(Y), X < Y", ["[1,2]", "[1,3]", "[2,3]"])
    # cut: discards clause alternatives and earlier goals' choice points
    check("t(X) :- q(X), !. t(z). q(1). q(2).", "t(X)", ["[1]"])
    check("t(X) :- q(X), !, X > 1. t(z). q(1). q(2).", "t(X)", [])
    check("t(X) :- (q(X), ! ; X = 9). t(z). q(1). q(2).", "t(X)", ["[1]"])
    check("t(X) :- (fail ; !, X = 9). t(z).", "t(X)", ["[9]"])
    check("t(X) :- s(X). t(z). s(X) :- q(X), !. s(y). q(1). q(2).", "t(X)", ["[1]", "[z]"])
    # ISO 7.8.4.4 / 7.8.7 / 7.8.8 examples
    check("", "(true -> X = 1 ; X = 2)", ["[1]"])
    check("", "(fail -> X = 1 ; X = 2)", ["[2]"])
    check("", "((X = 1 ; X = 2) -> true ; true)", ["[1]"])
    check("", "(true -> (X = 1 ; X = 2))", ["[1]", "[2]"])
    check("", "(fail -> true)", [])
    check("", "((X = 1, !) ; X = 2)", ["[1]"])
    check("p(1) :- (! -> true). p(2).", "p(X)", ["[1]", "[2]"])          # condition opaque to cut
    check("p(X) :- (true -> ! ; true), X = 1. p(2).", "p(X)", ["[1]"])    # then transparent
    check("p(X) :- (fail -> true ; !), X = 1. p(2).", "p(X)", ["[1]"])    # else transparent
    check("p(1) :- \\+ (!, fail). p(2).", "p(X)", ["[1]", "[2]"])         # \+ opaque
    check("p(1) :- call(!). p(2).", "p(X)", ["[1]", "[2]"])               # call opaque
    check("p(X) :- call((q(X), !)). p(9). q(1). q(2).", "p(X)", ["[1]", "[9]"])
    check("", "\\+ (X = 1), X = 2", [])
    check("", "\\+ \\+ (X = 1), var(X)", ["[_]"])
    check("", "\\+ fail, X = 1", ["[1]"])
    check("", "call((fail, 1))", [], "exc:type_error(callable, (fail, 1))")
    check("", "call(1)", [], "exc:type_error(callable, 1)")
    check("", "call(_)", [], "exc:instantiation_error")
    check("", "G = (X = 1 ; X = 2), call(G)", ["[(1 = 1 ; 1 = 2), 1]", "[(2 = 1 ; 2 = 2), 2]"])
    check("q(1,a). q(2,b).", "call(q, X, Y)", ["[1,a]", "[2,b]"])
    check("q(1,a). q(2,b).", "call(q(X), Y)", ["[1,a]", "[2,b]"])
    check("", "foo(1)", [], "exc:existence_error(procedure, foo/1)")
    check("", "foo(1)", [], "done", dynamic=[("foo", 1)])
    check("", "once((X = 1 ; X = 2))", ["[1]"])
    check("", "ignore(fail), X = 1", ["[1]"])
    check("", "forall((X = 1 ; X = 2), X > 0)", ["[_]"])
    check("", "forall((X = 1 ; X = 2), X > 1)", [])
    check("", "(X = 1 ; X = 2) *-> Y = a ; Y = b", ["[1,a]", "[2,a]"])
    check("", "fail *-> Y = a ; Y = b", ["[b]"])
    # catch / throw
    check("", "catch(throw(a), X, true)", ["[a]"])
    check("", "catch(throw(f(Y)), f(X), true)", ["[_,_]"])
    check("", "catch((Y = 1, throw(f(Y))), f(X), true)", ["[_,1]"])       # bindings undone, ball copied
    check("", "catch(throw(a), b, true)", [], "exc:a")
    check("", "catch(catch(throw(a), b, X = inner), a, X = outer)", ["[outer]"])
    check("", "catch(catch(throw(a), a, throw(b)), b, X = outer)", ["[outer]"])
    check("", "catch((X = 1 ; X = 2), _, true)", ["[1,_]", "[2,_]"])
    check("", "catch((X = 1 ; throw(b)), b, X = 3)", ["[1]", "[3]"])      # catch re-activated on backtracking
    check("", "catch(true, _, true), throw(x)", [], "exc:x")                # inactive after exit
    check("", "catch(X is foo + 1, error(E, _), true)", ["[_, type_error(evaluable, foo/0), _]"])
    check("", "X is 1 + a", [], "exc:type_error(evaluable, a/0)")
    check("", "X is _ + 1", [], "exc:instantiation_error")
    check("", "X is 7 // 0", [], "exc:evaluation_error(zero_divisor)")
    check("", "throw(_)", [], "exc:instantiation_error")
    check("p :- catch(q, _, true), !. p. q :- throw(x).", "p", ["[]"])
    check("", "catch((X = 1, throw(a)), a, true), var(X)", ["[_]"])
    # findall
    check(q3, "findall(X-Y, q(X,Y), L)", ["[_,_,[a-1,b-2,c-3]]"])
    check(q3, "findall(X, (q(X,_), fail), L)", ["[_,_,[]]"])
    check(q3, "findall(X, q(X,_), [A|T])", ["[_,_,a,[b,c]]"])
    check("", "findall(X, (X = 1 ; throw(oops)), L)", [], "exc:oops")
    check("", "findall(Y, (X = 1 ; X = 2), L)", ["[_,_,[_,_]]"])
    check("", "findall(X, member(X, [a]), L)", [], "exc:existence_error(procedure, member/2)")
    # term inspection
    check("", "functor(f(a,B), N, A)", ["[_,f,2]"])
    check("", "functor(T, f, 2)", ["[f(_,_)]"])
    check("", "functor(T, 7, 0)", ["[7]"])
    check("", "arg(2, f(a,b), X)", ["[b]"])
    check("", "arg(3, f(a,b), X)", [])
    check("", "f(a,X) =.. L", ["[X,[f,a,X]]"])
    check("", "T =.. [g,1,Y]", ["[g(1,Y),Y]"])
    check("", "T =.. [a]", ["[a]"])
    check("", "copy_term(f(X,Y,X), C)", ["[_,_,f(_A,_B,_A)]"])
    check("", "X = f(Y), Y = 1, X == f(1)", ["[f(1),1]"])
    check("", "f(X) \\== f(Y)", ["[_,_]"])
    check("", "f(X) \\= f(a)", [])
    check("", "1 \\= 1.0", ["[]"])
    check("", "compare(O, a, f(x))", ["[<]"])
    check("", "compare(O, 2, 1.0)", ["[>]"])
    check("", "X is 7 mod -2, Y is -7 // 2, Z is -7 rem 2, W is -7 div 2", ["[-1,-3,-1,-4]"])
    check("", "X is 2 ** 3, Y is 2 ^ 100", ["[8, 1267650600228229401496703205376]"])
    check("", "between(1, 3, X)", ["[1]", "[2]", "[3]"])
    check("", "length(L, N)", ["[[],0]", "[[_],1]"], "cap", cap=2)
    check("", "atom(a), atomic(1), \\+ atom(1), var(_), nonvar(a), compound(f(x)), callable(a), is_list([a])", ["[_]"])
    # non-termination is reported, not suffered
    check("loop :- loop.", "loop", [], "budget", steps=2000)
    check("", "(Y = 1 ; X = f(X))", ["[1,_]"], "sto")
    check("", "X = f(Y), Y = g(X)", [], "sto")
    check("nat(0). nat(s(X)) :- nat(X).", "nat(X)", ["[0]", "[s(0)]", "[s(s(0))]"], "cap", cap=3)
    # database: logical update view
    r = check("", "assertz(d(1)), assertz(d(2)), d(X), assertz(d(3))", ["[1]", "[2]"])
    check("", "findall(X, d(X), L)", ["[_,[1,2,3,3]]"], ref=r)
    check("", "retract(d(3)), findall(X, d(X), L)", ["[_,[1,2,3]]", "[_,[1,2]]"], ref=r)
    check("", "d(X), retract(d(2))", ["[1]"], ref=r)       # second iteration: d(2) is gone but still visited; retract fails
    check("", "findall(X, d(X), L)", ["[_,[1]]"], ref=r)
    check("", "asserta(d(0)), findall(X, d(X), L)", ["[_,[0,1]]"], ref=r)
    check("", "retract(d(X)), X >= 1", ["[1]"], ref=r)
    check("", "findall(X, d(X), L)", ["[_,[]]"], ref=r)
    check("s(1).", "assertz(s(2))", [], "exc:permission_error(modify, static_procedure, s/1)")
    check("", "assertz((r(X) :- X = 1 ; X = 2)), r(Y), clause(r(Z), B)", ["[_,1,Z,(Z = 1 ; Z = 2)]", "[_,2,Z,(Z = 1 ; Z = 2)]"])
    check("", "assertz(foo), retractall(foo), foo", [])
    check("", "assertz(_)", [], "exc:instantiation_error")
    check("", "assertz((foo :- 1))", [], "exc:type_error(callable, 1)")
    # setup_call_cleanup
    r = check("", "setup_call_cleanup(true, X = 1, assertz(log(a)))", ["[1]"])
    check("", "findall(K, log(K), L)", ["[_,[a]]"], ref=r)
    r = check("", "setup_call_cleanup(true, fail, assertz(log(a)))", [])
    check("", "findall(K, log(K), L)", ["[_,[a]]"], ref=r)
    r = check("", "catch(setup_call_cleanup(true, throw(x), assertz(log(a))), x, true)", ["[]"])
    check("", "findall(K, log(K), L)", ["[_,[a]]"], ref=r)
    r = check("", "setup_call_cleanup(true, (X = 1 ; X = 2), assertz(log(a))), assertz(log(X))", ["[1]", "[2]"])
    check("", "findall(K, log(K), L)", ["[_,[1,a,2]]"], ref=r)   # last branch entered: deterministic exit
    r = check("", "setup_call_cleanup(true, (X = 1 ; X = 2), assertz(log(a))), !, assertz(log(X))", ["[1]"])
    check("", "findall(K, log(K), L)", ["[_,[a,1]]"], ref=r)     # cut runs the cleanup
    r = check("", "setup_call_cleanup(S = 1, true, assertz(log(S)))", ["[1]"])
    check("", "findall(K, log(K), L)", ["[_,[1]]"], ref=r)
    r = check("", "setup_call_cleanup(true, setup_call_cleanup(true, throw(x), assertz(log(i))), assertz(log(o)))", [], "exc:x")
    check("", "findall(K, log(K), L)", ["[_,[i,o]]"], ref=r)
    check("", "setup_call_cleanup(true, true, _)", [], "exc:instantiation_error")
    # blackboard
    check("", "bb_put(k, 1), (bb_b_put(k, 2), fail ; bb_get(k, V))", ["[1]"])
    check("", "bb_put(k, 1), (bb_put(k, 2), fail ; bb_get(k, V))", ["[2]"])
    check("", "bb_put(k, 1), \\+ \\+ bb_b_put(k, 2), bb_get(k, V)", ["[1]"])
    check("", "bb_put(k, 1), (bb_b_put(k, 2) -> bb_get(k, V) ; true)", ["[2]"])
    check("", "bb_b_put(k, 0), (bb_b_put(k, 1), bb_b_put(k, 2), fail ; bb_get(k, V))", ["[0]"])
    check("", "bb_b_put(k, 0), (bb_put(k, 1), fail ; bb_get(k, V))", ["[1]"])
    check("", "bb_put(k, 0), (bb_put(k, 3), bb_b_put(k, 1), fail ; bb_get(k, V))", ["[3]"])
    check("", "bb_put(k, 0), (bb_b_put(k, 1), bb_put(k, 2), fail ; bb_get(k, V))", ["[2]"])
    check("", "bb_b_put(k, 0), catch((bb_b_put(k, 1), throw(x)), _, true), bb_get(k, V)", ["[x,0]"])
    r = check("", "bb_put(k, 7), bb_b_put(k, 8)", ["[]"])
    check("", "bb_get(k, V)", ["[7]"], ref=r)
    check("", "put_atts(A, a(1)), (put_atts(A, a(2)), fail ; get_atts(A, a(V)))", ["[_,1]"])
    check("", "\\+ (put_atts(A, a(1)), fail), get_atts(A, -a(_))", ["[_,_]"])
    # deep recursion is iterative
    r = RefProlog(parse_program("len([], 0). len([_|T], N) :- len(T, M), N is M + 1. "
                                "mk(0, []) :- !. mk(N, [N|T]) :- M is N - 1, mk(M, T)."))
    ans, st = r.solve(parse("mk(3000, L), len(L, N), L = [F|_]"), 5, 10 ** 6)
    n[0] += 1
    if not (st == "done" and len(ans) == 1 and ans[0][1] == 3000 and ans[0][2] == 3000):
        fails.append(("deep recursion", st))
    # deviation models
    dv = "p(1) :- (! -> true). p(2). p3(X) :- ((!, fail) -> X = 1 ; X = 2). p3(3). " \
         "p4(X) :- call(((!, fail) -> X = 1 ; X = 2)). p4(3). " \
         "p7(X) :- \\+ ((Y = 1 ; Y = 2), (! -> Y == 2)), X = 1. p7(3)."
    for goal, iso, dev in [("p(X)", ["[1]", "[2]"], ["[1]"]), ("p3(X)", ["[2]", "[3]"], []),
                           ("p4(X)", ["[2]", "[3]"], ["[3]"]), ("p7(X)", ["[3]"], ["[1]", "[3]"])]:
        check(dv, goal, iso)
        check(dv, goal, dev, ref=RefProlog(parse_program(dv), quirks=("body_cond_cut", "call_ite_cond_cut")))
    # stats
    r = RefProlog(parse_program("t(X) :- q(X), !. t(z). q(1). q(2)."))
    r.solve(parse("t(X)"))
    n[0] += 1
    if r.stats["cuts_nonempty"] != 1:
        fails.append(("stats", r.stats))

    for f in fails:
        print("FAIL", f)
    print("refprolog self-test: %d checks, %d failures" % (n[0], len(fails)))
    return 1 if fails else 0


if __name__ == "__main__":
    sys.exit(_selftest())
