"""Independent text model for C55 / C15 / C50 (written from ISO/IEC 13211-1
6.4, not from heap_print.rs):

  * quote_class(atom)      must an all-ASCII atom be quoted by writeq?
  * decode_quoted(text)    strict decoder of one quoted atom token '...'
  * parse_canonical(text)  parser of *operator-free* term text (functional
                           notation, lists, curly terms, quoted atoms,
                           numbers, variables); anything needing an operator
                           table is a ParseError.
"""
from fractions import Fraction

from vx.core.terms import V

SYMBOL_CHARS = set("#$&*+-./:<=>?@^~\\")
SOLO_ATOMS = {"[]", "{}", "!", ";"}
LOWER = set("abcdefghijklmnopqrstuvwxyz")
UPPER = set("ABCDEFGHIJKLMNOPQRSTUVWXYZ")
DIGITS = set("0123456789")
ALNUM = LOWER | UPPER | DIGITS | {"_"}


def is_ascii(s):
    return all(ord(c) < 128 for c in s)


def quote_class(a):
    """for an all-ASCII atom: 'bare' (must be written unquoted) or 'quoted'.
    ISO 6.4.2: unquoted iff letter-digit token starting with a small letter,
    or a graphic token that is not misread (not the end token '.', not
    starting a bracketed comment '/*'), or one of [] {} ! ;"""
    assert is_ascii(a)
    if a == "":
        return "quoted"
    if a in SOLO_ATOMS:
        return "bare"
    if a[0] in LOWER and all(c in ALNUM for c in a):
        return "bare"
    if all(c in SYMBOL_CHARS for c in a):
        if a == ".":
            return "quoted"
        if a.startswith("/*"):
            return "quoted"
        return "bare"
    return "quoted"


class ParseError(Exception):
    pass


_CTRL = {"a": "\a", "b": "\b", "f": "\f", "n": "\n", "r": "\r", "t": "\t", "v": "\v", "0": None}


def _scan_quoted(s, i, q):
    """s[i] == q. -> (decoded text, index after the closing quote). Strict ISO:
    a raw newline or other control character inside quotes is an error."""
    assert s[i] == q
    i += 1
    out = []
    n = len(s)
    while True:
        if i >= n:
            raise ParseError("unterminated quoted token")
        c = s[i]
        if c == q:
            if i + 1 < n and s[i + 1] == q:
                out.append(q)
                i += 2
                continue
            return "".join(out), i + 1
        if c == "\\":
            if i + 1 >= n:
                raise ParseError("dangling backslash")
            d = s[i + 1]
            if d == "\n":
                i += 2
                continue
            if d in "\\'\"`":
                out.append(d)
                i += 2
                continue
            if d in "abfnrtv":
                out.append(_CTRL[d])
                i += 2
                continue
            if d == "x":
                j = i + 2
                while j < n and s[j] in "0123456789abcdefABCDEF":
                    j += 1
                if j == i + 2 or j >= n or s[j] != "\\":
                    raise ParseError("bad hex escape")
                out.append(chr(int(s[i + 2:j], 16)))
                i = j + 1
                continue
            if d in "01234567":
                j = i + 1
                while j < n and s[j] in "01234567":
                    j += 1
                if j >= n or s[j] != "\\":
                    raise ParseError("bad octal escape")
                out.append(chr(int(s[i + 1:j], 8)))
                i = j + 1
                continue
            raise ParseError("undefined escape \\%s" % d)
        if c == "\n" or (ord(c) < 32 and c != "\t") or ord(c) == 127:
            # ISO: only graphic, alphanumeric, solo, space and the other
            # quote/meta characters may appear raw. (A raw tab is tolerated:
            # many processors print it raw and it is not what C55 is about.)
            raise ParseError("raw control character %r in quoted token" % c)
        out.append(c)
        i += 1


def decode_quoted(text):
    """text must be exactly one single-quoted token -> the atom text, else ParseError"""
    if not text or text[0] != "'":
        raise ParseError("not a quoted token")
    a, j = _scan_quoted(text, 0, "'")
    if j != len(text):
        raise ParseError("trailing text after quoted token")
    return a


# ---------------------------------------------------------------------------
# operator-free term parser

def _ext(c):
    """a non-ASCII character that is not white space: extended characters are
    processor defined (ISO 6.5), the liberal choice is 'part of a name'"""
    return ord(c) > 127 and not c.isspace()


def _tokens(s):
    """-> list of (kind, value, start, end)"""
    toks = []
    i = 0
    n = len(s)
    while i < n:
        c = s[i]
        if c in " \t\n\r":
            i += 1
            continue
        st = i
        if c == "'":
            a, i = _scan_quoted(s, i, "'")
            toks.append(("atom", a, st, i))
        elif c == '"':
            a, i = _scan_quoted(s, i, '"')
            toks.append(("string", a, st, i))
        elif c in DIGITS:
            j = i
            while j < n and s[j] in DIGITS:
                j += 1
            isf = False
            if j + 1 < n and s[j] == "." and s[j + 1] in DIGITS:
                isf = True
                j += 1
                while j < n and s[j] in DIGITS:
                    j += 1
                if j < n and s[j] in "eE":
                    k = j + 1
                    if k < n and s[k] in "+-":
                        k += 1
                    if k < n and s[k] in DIGITS:
                        while k < n and s[k] in DIGITS:
                            k += 1
                        j = k
            toks.append(("num", float(s[i:j]) if isf else int(s[i:j]), st, j))
            i = j
        elif c == "_" or c in UPPER:
            j = i
            while j < n and (s[j] in ALNUM or _ext(s[j])):
                j += 1
            toks.append(("var", s[i:j], st, j))
            i = j
        elif c in LOWER or (_ext(c) and not c.isupper()):
            j = i
            while j < n and (s[j] in ALNUM or _ext(s[j])):
                j += 1
            toks.append(("atom", s[i:j], st, j))
            i = j
        elif c in SYMBOL_CHARS:
            j = i
            while j < n and s[j] in SYMBOL_CHARS:
                j += 1
            toks.append(("sym", s[i:j], st, j))
            i = j
        elif c in "!;":
            i += 1
            toks.append(("atom", c, st, i))
        elif c in "()[]{},|":
            i += 1
            toks.append(("punct", c, st, i))
        else:
            raise ParseError("unexpected character %r" % c)
    return toks


class _P:
    def __init__(self, toks):
        self.t = toks
        self.i = 0

    def peek(self):
        return self.t[self.i] if self.i < len(self.t) else None

    def next(self):
        t = self.peek()
        if t is None:
            raise ParseError("unexpected end")
        self.i += 1
        return t

    def expect(self, p):
        t = self.next()
        if t[0] != "punct" or t[1] != p:
            raise ParseError("expected %r, got %r" % (p, t[1]))

    def is_punct(self, p):
        t = self.peek()
        return t is not None and t[0] == "punct" and t[1] == p

    def open_follows(self, tok):
        """the next token is '(' and starts right where tok ends (functional notation)"""
        nx = self.peek()
        return nx is not None and nx[0] == "punct" and nx[1] == "(" and nx[2] == tok[3]

    def args(self):
        self.expect("(")
        a = [self.term()]
        while self.is_punct(","):
            self.next()
            a.append(self.term())
        self.expect(")")
        return a

    def term(self):
        t = self.next()
        k, v = t[0], t[1]
        if k == "num":
            return v
        if k == "var":
            return V(v)
        if k == "string":
            r = "[]"
            for ch in reversed(v):
                r = (".", ch, r)
            return r
        if k == "sym" or k == "atom":
            if self.open_follows(t):
                return tuple([v] + self.args())
            nx = self.peek()
            # a name token '-' directly followed by a numeric token is a negative number
            if k == "sym" and v == "-" and nx is not None and nx[0] == "num" and nx[2] == t[3]:
                self.next()
                return -nx[1]
            return v
        if k == "punct":
            if v == "(":
                x = self.term()
                self.expect(")")
                return x
            if v == "[":
                if self.is_punct("]"):
                    cl = self.next()
                    if self.open_follows(cl):
                        return tuple(["[]"] + self.args())
                    return "[]"
                el = [self.term()]
                while self.is_punct(","):
                    self.next()
                    el.append(self.term())
                tail = "[]"
                if self.is_punct("|"):
                    self.next()
                    tail = self.term()
                self.expect("]")
                r = tail
                for e in reversed(el):
                    r = (".", e, r)
                return r
            if v == "{":
                if self.is_punct("}"):
                    cl = self.next()
                    if self.open_follows(cl):
                        return tuple(["{}"] + self.args())
                    return "{}"
                x = self.term()
                self.expect("}")
                return ("{}", x)
        raise ParseError("unexpected token %r" % (v,))


def parse_canonical(text):
    p = _P(_tokens(text))
    x = p.term()
    if p.peek() is not None:
        raise ParseError("operator notation or trailing text at token %r" % (p.peek()[1],))
    return x


def same_modulo_vars(a, b):
    """structural equality of two abstract terms up to a bijective variable renaming;
    floats by value (so -0.0 == 0.0), ints exact"""
    m1, m2 = {}, {}

    def go(x, y):
        if isinstance(x, V) or isinstance(y, V):
            if not (isinstance(x, V) and isinstance(y, V)):
                return False
            if x.n in m1 or y.n in m2:
                return m1.get(x.n) == y.n and m2.get(y.n) == x.n
            m1[x.n] = y.n
            m2[y.n] = x.n
            return True
        if isinstance(x, tuple) or isinstance(y, tuple):
            if not (isinstance(x, tuple) and isinstance(y, tuple)) or len(x) != len(y) or x[0] != y[0]:
                return False
            return all(go(p, q) for p, q in zip(x[1:], y[1:]))
        if isinstance(x, bool) or isinstance(y, bool):
            return False
        if isinstance(x, float) or isinstance(y, float):
            return isinstance(x, float) and isinstance(y, float) and x == y
        if isinstance(x, (int, Fraction)) or isinstance(y, (int, Fraction)):
            return isinstance(x, (int, Fraction)) and isinstance(y, (int, Fraction)) and x == y and \
                isinstance(x, int) == isinstance(y, int)
        return x == y

    return go(a, b)
