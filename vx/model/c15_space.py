"""Term space shared by C15 (round trip), C55 (canonical output) and C50
(in-memory vs stream writing): abstract term *descriptions* that the Prolog
helper vx/prolog/c15_helper.pl builds at run time, the operator-table
configurations, and shape abstraction for violation signatures.

A description is a nested tuple/list (JSON-able):
  ["a", name]  ["i", int]  ["f", float]  ["r", num, den]  ["v", k]
  ["c", name, [args]]      compound via =..
  ["l", [elems], tail]     list cells (Lis)
  ["s", text, tail]        characters via atom_chars/2 (partial string), then tail
  ["k", desc]              copy_term/2 of the built term (top level only)
"""
import itertools
import os
from fractions import Fraction

from vx.core.terms import V
from vx.model import c55_textio as TX

HELPER = os.path.join(os.path.dirname(os.path.dirname(os.path.abspath(__file__))), "prolog", "c15_helper.pl")


def helper_text():
    with open(HELPER) as f:
        return f.read()


# --------------------------------------------------------------------------
# constructors
def A(n):
    return ("a", n)


def I(n):
    return ("i", n)


def F(x):
    return ("f", x)


def R(n, d):
    return ("r", n, d)


def Vr(k):
    return ("v", k)


def C(name, *args):
    return ("c", name, list(args))


def K(d):
    """the term obtained by copy_term/2 from the built term (variables then
    live inside the term, as in terms produced by the reader)"""
    return ("k", d)


def L(elems, tail=None):
    return ("l", list(elems), tail if tail is not None else A("[]"))


def St(text, tail=None):
    return ("s", text, tail if tail is not None else A("[]"))


def codes(s):
    return "[" + ",".join(str(ord(c)) for c in s) + "]"


def fmt_desc(d):
    """description -> op-free Prolog text understood by c15_build/2"""
    k = d[0]
    if k == "a":
        return "a(%s)" % codes(d[1])
    if k == "i":
        return "i(%d)" % d[1] if d[1] >= 0 else "n(%d)" % -d[1]
    if k == "f":
        x = d[1]
        if x == 0.0 and str(x).startswith("-"):
            return "nz"
        n, den = abs(x).as_integer_ratio()
        assert n < 2 ** 62 or den == 1
        return ("fl(%d,%d)" if x >= 0 else "nfl(%d,%d)") % (n, den)
    if k == "r":
        return ("r(%d,%d)" if d[1] >= 0 else "nr(%d,%d)") % (abs(d[1]), d[2])
    if k == "v":
        return "v(%d)" % d[1]
    if k == "c":
        return "c(%s,[%s])" % (codes(d[1]), ",".join(fmt_desc(x) for x in d[2]))
    if k == "l":
        return "l([%s],%s)" % (",".join(fmt_desc(x) for x in d[1]), fmt_desc(d[2]))
    if k == "s":
        return "s(%s,%s)" % (codes(d[1]), fmt_desc(d[2]))
    if k == "k":
        return "k(%s)" % fmt_desc(d[1])
    raise ValueError(d)


def to_abstract(d):
    """description -> abstract term in vx.core.terms representation"""
    k = d[0]
    if k == "a":
        return d[1]
    if k == "i":
        return d[1]
    if k == "f":
        return d[1]
    if k == "r":
        return Fraction(d[1], d[2])
    if k == "v":
        return V(d[1])
    if k == "c":
        return tuple([d[1]] + [to_abstract(x) for x in d[2]])
    if k == "l":
        t = to_abstract(d[2])
        for e in reversed(d[1]):
            t = (".", to_abstract(e), t)
        return t
    if k == "s":
        t = to_abstract(d[2])
        for ch in reversed(d[1]):
            t = (".", ch, t)
        return t
    if k == "k":
        return to_abstract(d[1])
    raise ValueError(d)


def show(d):
    """readable functional-notation text of a description (for evidence)"""
    k = d[0]
    if k == "a":
        return repr(d[1]) if TX.is_ascii(d[1]) and TX.quote_class(d[1]) == "quoted" or not TX.is_ascii(d[1]) else d[1]
    if k == "i":
        return str(d[1])
    if k == "f":
        return repr(d[1])
    if k == "r":
        return "%dr%d" % (d[1], d[2])
    if k == "v":
        return "_V%d" % d[1]
    if k == "c":
        return "%s(%s)" % (show(A(d[1])), ",".join(show(x) for x in d[2]))
    if k == "l":
        s = "[" + ",".join(show(x) for x in d[1])
        if tuple(d[2]) != ("a", "[]"):
            s += "|" + show(d[2])
        return s + "]"
    if k == "s":
        s = '"%s"' % d[1]
        if tuple(d[2]) != ("a", "[]"):
            s += "+" + show(d[2])
        return s
    if k == "k":
        return "copy_term(%s)" % show(d[1])
    raise ValueError(d)


def has_var(d):
    k = d[0]
    if k == "v":
        return True
    if k == "c":
        return any(has_var(x) for x in d[2])
    if k == "l":
        return any(has_var(x) for x in d[1]) or has_var(d[2])
    if k == "s":
        return has_var(d[2])
    if k == "k":
        return has_var(d[1])
    return False


def nv_transform(d):
    """what a numbervars(true) writer is expected to denote: '$VAR'(N) with a
    non-negative integer N prints as a variable name (same N, same name)"""
    slots = {}

    def go(x):
        k = x[0]
        if k == "c":
            if x[1] == "$VAR" and len(x[2]) == 1 and x[2][0][0] == "i" and x[2][0][1] >= 0:
                n = x[2][0][1]
                if n not in slots:
                    slots[n] = 4 + len(slots)
                if slots[n] > 6:
                    raise ValueError("too many numbered variables")
                return ("v", slots[n])
            return ("c", x[1], [go(y) for y in x[2]])
        if k == "l":
            return ("l", [go(y) for y in x[1]], go(x[2]))
        if k == "s":
            return ("s", x[1], go(x[2]))
        if k == "k":
            return ("k", go(x[1]))
        return x

    return go(d)


# --------------------------------------------------------------------------
# operator tables: name -> (ops applied on top of the default table, ops that undo them)
def _user_tables():
    t = {"default": ([], [])}
    for ty in ("fy", "fx", "xfx", "xfy", "yfx", "xf", "yf"):
        for p in (200, 700, 1200):
            t["foo_%s_%d" % (ty, p)] = ([(p, ty, "foo")], [(0, ty, "foo")])
    t["foo_fy200_yfx500"] = ([(200, "fy", "foo"), (500, "yfx", "foo")], [(0, "fy", "foo"), (0, "yfx", "foo")])
    t["foo_fy700_xf700"] = ([(700, "fy", "foo"), (700, "xf", "foo")], [(0, "fy", "foo"), (0, "xf", "foo")])
    t["A_xfx_700"] = ([(700, "xfx", "A")], [(0, "xfx", "A")])
    t["A_fy_200"] = ([(200, "fy", "A")], [(0, "fy", "A")])
    t["A_xf_200"] = ([(200, "xf", "A")], [(0, "xf", "A")])
    t["nominus"] = ([(0, "fy", "-")], [(200, "fy", "-")])
    return t


TABLES = _user_tables()


def ops_text(ops):
    return "[" + ",".join("op(%d,%s,%s)" % (p, t, codes(n)) for (p, t, n) in ops) + "]"


class OpTable:
    """the implementation's table as read by c15_optable/1 (used for labels
    and signatures only, never for a verdict)"""

    def __init__(self, entries):
        self.pre, self.inf, self.post = {}, {}, {}
        for (p, t, n) in entries:
            if t in ("fy", "fx"):
                self.pre[n] = (p, t)
            elif t in ("xf", "yf"):
                self.post[n] = (p, t)
            else:
                self.inf[n] = (p, t)

    def is_op(self, n):
        return n in self.pre or n in self.inf or n in self.post

    def fclass(self, name, arity):
        if arity == 1 and name in self.pre:
            return "pre"
        if arity == 1 and name in self.post:
            return "post"
        if arity == 2 and name in self.inf:
            return "in"
        return "fn"


def parse_optable(term):
    from vx.core import terms as T
    el, _ = T.unlist(term)
    out = []
    for e in el:
        p, t, cs = e[1], e[2], e[3]
        name = "".join(chr(c) for c in T.unlist(cs)[0])
        out.append((p, t, name))
    return OpTable(out)


_SPECIAL = {"-": "-", "+": "+", ",": "comma", "|": "bar", "[]": "nil", "{}": "curlies"}


def _atom_class(a, ot):
    if a in ("[]", "{}"):
        return _SPECIAL[a]
    if a == ",":
        return "comma"
    if a == "|":
        return "bar"
    if ot.is_op(a):
        return "opatom" + (a if a in "-+" else "")
    if TX.is_ascii(a):
        return "atom" if TX.quote_class(a) == "bare" else "qatom"
    return "uatom"


def _num_class(x):
    if isinstance(x, Fraction):
        return "negrat" if x < 0 else "rat"
    if isinstance(x, float):
        return "negf" if (x < 0 or str(x).startswith("-")) else "posf"
    return "neg" if x < 0 else "pos"


def _fname(name, arity, ot):
    c = ot.fclass(name, arity)
    if name == "." and arity == 2:
        return "cons"
    if name == "{}" and arity == 1:
        return "curly"
    if name == "$VAR" and arity == 1:
        return "dvar"
    if name in ("-", "+"):
        return c + name
    if name == ",":
        return c + "comma"
    if name == "|":
        return c + "bar"
    return c


def shape_desc(d, ot):
    k = d[0]
    if k == "a":
        return _atom_class(d[1], ot)
    if k == "i" or k == "f":
        return _num_class(d[1])
    if k == "r":
        return _num_class(Fraction(d[1], d[2]))
    if k == "v":
        return "var"
    if k == "c":
        return "%s(%s)" % (_fname(d[1], len(d[2]), ot), ",".join(shape_desc(x, ot) for x in d[2]))
    if k == "l":
        s = "lis[" + ",".join(shape_desc(x, ot) for x in d[1])
        if tuple(d[2]) != ("a", "[]"):
            s += "|" + shape_desc(d[2], ot)
        return s + "]"
    if k == "s":
        s = "str%d" % len(d[1])
        if tuple(d[2]) != ("a", "[]"):
            s += "|" + shape_desc(d[2], ot)
        return s
    if k == "k":
        return "copy:" + shape_desc(d[1], ot)
    raise ValueError(d)


def shape_term(t, ot, depth=0):
    """shape of an observed (abstract) term"""
    if depth > 8:
        return "..."
    if isinstance(t, V):
        return "var"
    if isinstance(t, str):
        return _atom_class(t, ot)
    if isinstance(t, (int, float, Fraction)) and not isinstance(t, bool):
        return _num_class(t)
    if isinstance(t, tuple):
        if len(t) == 3 and t[0] == ".":
            el = []
            while isinstance(t, tuple) and len(t) == 3 and t[0] == "." and len(el) < 12:
                el.append(t[1])
                t = t[2]
            s = "list[" + ",".join(shape_term(e, ot, depth + 1) for e in el)
            if t != "[]":
                s += "|" + shape_term(t, ot, depth + 1)
            return s + "]"
        return "%s(%s)" % (_fname(t[0], len(t) - 1, ot), ",".join(shape_term(x, ot, depth + 1) for x in t[1:]))
    return "?"


# --------------------------------------------------------------------------
# vocabularies
A_FULL = ["a", "A", "_x", "", "[]", "{}", ",", "|", ";", "!", ".", "-", "+", "*", "\\", "/*", "//",
          ":-", "-->", "is", "mod", "dynamic", "é", "a b", "a\nb", "don't", "\x01", "€",
          "^", "=", "\\+", "->", "foo", "$VAR"]
A_CORE = ["a", "A", "", "[]", "{}", ",", "|", ";", ".", "-", "+", "*", ":-", "is", "dynamic", "é",
          "a b", "\x01", "^", "=", "\\+", "foo"]
NUMS_FULL = [0, 1, -1, 1.0, -1.0, 1.0e10, 2 ** 70, -(2 ** 70)]
NUMS_CORE = [1, -1, 1.0, -1.0]


def num(x):
    return F(x) if isinstance(x, float) else I(x)


def leaves(atoms, nums, nvars):
    return [A(a) for a in atoms] + [num(x) for x in nums] + [Vr(k) for k in range(1, nvars + 1)]


def gen_small(functors, lv1, lv2):
    """all terms of size <= 3: leaves, f(x), f(x,y), f(g(x))"""
    for x in lv1:
        yield x
    for f in functors:
        for x in lv1:
            yield C(f, x)
    for f in functors:
        for x in lv1:
            for y in lv2:
                yield C(f, x, y)
    for f in functors:
        for g in functors:
            for x in lv1:
                yield C(f, C(g, x))


def gen_nests(functors, lv, must=None, deep=True):
    """size 4-5 shapes over an operator-focused vocabulary"""
    def ok(*fs):
        return must is None or any(f in must for f in fs)
    for f, g in itertools.product(functors, functors):
        if not ok(f, g):
            continue
        for x, y in itertools.product(lv, lv):
            yield C(f, C(g, x, y))
            yield C(f, C(g, x), y)
            yield C(f, x, C(g, y))
        if deep:
            for x, y, z in itertools.product(lv, lv, lv):
                yield C(f, C(g, x, y), z)
                yield C(f, x, C(g, y, z))
    for f, g, h in itertools.product(functors, functors, functors):
        if not ok(f, g, h):
            continue
        for x in lv:
            yield C(f, C(g, C(h, x)))


NEST_F = ["-", "+", "*", "^", "=", ",", ";", "->", ":-", "\\+", "is", "mod", "f", "|", ":", "**", "dynamic"]
NEST_LQ = [A("a"), I(1), I(-1), A("-")]
NEST_LT = NEST_LQ + [Vr(1), F(1.0), F(-1.0), A("[]")]

USER_F = ["foo", "-", "+", ",", "=", "^", ":-", "f", "\\+"]
MINUS_F = ["-", "+", "^", "*", "f", "="]


def gen_lists(tier):
    el = leaves(A_CORE, NUMS_CORE, 1) + [
        C(",", A("a"), A("b")), C(":-", A("a"), A("b")), C(":-", A("a")), C("-", I(1)), C("-", A("a")),
        C("-", A("a"), A("b")), C("f", A("a")), L([A("a")]), St("ab"), C("{}", A("a")), C("|", A("a"), A("b")),
        C("=", A("a"), A("b")), C("\\+", A("a")), C(";", A("a"), A("b")), C("->", A("a"), A("b")),
    ]
    small = [A("a"), A("[]"), Vr(1), Vr(2), I(1), A("|"), St("b"), L([A("b")]), C("f", A("a"))]
    for x in el:
        yield L([x])
        yield C("{}", x)
        yield C("[]", x)
        yield C("{}", x, x)
        yield C("f", L([x]))
        yield C("-", L([x]))
        yield C("-", C("{}", x))
        yield C("f", C("{}", x))
        yield St("ab", x)
        yield St("a", x)
        yield C(".", x, A("[]"))
        for y in small:
            yield L([x, y])
            yield L([x], y)
            yield L([y], x)
            yield C(".", x, y)
            yield C("{}", C(",", x, y))
            yield C("-", L([x]), y)
            yield C("-", y, L([x]))
            if tier == "thorough":
                for z in small:
                    yield L([x, y], z)
                    yield L([x, y, z])
                    yield C("{}", C(",", x, C(",", y, z)))
    # strings with characters that need escapes, and their encodings
    for s in ["", "a", "ab", "a b", "a\"b", "a'b", "a\\b", "a\nb", "é", "A", "1", "[]", "a\x01b", " ", ","]:
        for tail in [A("[]"), Vr(1), A("a"), L([I(1)]), St("z")]:
            yield St(s, tail)
            yield C("f", St(s, tail))
            yield L(list(A(c) for c in s), tail)
            yield C("-", St(s, tail))
    # shared variable tails (the implementation's list printer tracks tails)
    T1, T2 = Vr(1), Vr(2)
    for t in [
        L([T1, L([A("a")], T1)]), L([L([A("a")], T1)], T1), C("f", T1, L([A("a")], T1)),
        C("-", L([A("a")], T1), L([A("b")], T1)), L([T1, L([A("a")], T1), T2, Vr(3)]),
        L([L([A("a")], T1), L([A("b")], T1)]), L([T1, T1], T1), L([L([T1], T2)], T2),
        L([T1, L([A("a"), A("b")], T1)]), L([T1, L([I(1)], T1)]), L([T1, St("a", T1)]),
        L([T1, C(".", A("a"), T1)]), C("f", L([A("a")], T1), T1), L([L([A("a")], T1), T1]),
        L([T2, L([A("a")], T1)]), L([T1, L([A("a")], T2)], T1),
        L([T1, St("ab", T1)]), L([T1, St("a", T1), T2]), L([T1, T2, St("a", T1)]), L([T2, St("a", T1), T1]),
        L([St("a", T1), T1]), L([St("a", T1)], T1), C("f", T1, St("a", T1)), C("f", St("a", T1), T1),
        L([T1, St("a", T1), T2, Vr(3)]), L([T1, L([St("a", T1)])]), L([T1, St("a", St("b", T1))]),
        L([T1, St("a", T2)]), L([T1, C("f", St("a", T1))]),
    ]:
        yield t


def gen_dvar():
    ns = [0, 1, 25, 26, 27, 51, 52, 701, 2 ** 70]
    for n in ns:
        d = C("$VAR", I(n))
        yield d
        yield C("f", d)
        yield C("-", d)
        yield C("-", d, I(1))
        yield C("-", I(1), d)
        yield L([d])
        yield C("foo", d, d)
        yield C("f", d, Vr(1))
        yield C("^", C("-", d), I(2))
    for m, n in [(0, 1), (1, 0), (1, 27), (26, 0)]:
        yield C("f", C("$VAR", I(m)), C("$VAR", I(n)), C("$VAR", I(m)))
    for x in [A("a"), A("A"), F(1.0), I(-1), Vr(1), C("$VAR", I(1)), A("Foo"), St("A"), L([I(1)])]:
        yield C("$VAR", x)
        yield C("-", C("$VAR", x))
        yield C("$VAR", x, x)


def gen_rat():
    rs = [R(1, 2), R(-1, 2), R(7, 2), R(2 ** 70 + 1, 2), R(-(2 ** 70 + 1), 3)]
    for r in rs:
        yield r
        yield C("f", r)
        yield C("-", r)
        yield C("-", I(1), r)
        yield C("-", r, I(1))
        yield C("^", r, I(2))
        yield C("^", I(2), r)
        yield L([r])
        yield C("rdiv", r, r)
        yield C("*", r, I(2))
        yield C("-", C("-", r))


# non-ASCII white space, format, combining, private-use and supplementary-plane characters
UNI_CHARS = ["\u00a0", "\u0085", "\u1680", "\u2003", "\u2028", "\u2029", "\u202f", "\u3000", "\ufeff", "\u00ad",
             "\u200b", "\u0301", "\ue000", "\U0001f600", "\U000e0001", "\u061c"]


def uni_atoms():
    out = []
    for u in UNI_CHARS:
        out += [u, u + "a", "a" + u, "a" + u + "b", u + u]
    out += ["\u00a0\u2028", "a\u0301\u00a0", "\u3000 ", " \u00a0"]
    return out


def gen_unicode():
    for x in uni_atoms():
        yield A(x)
        yield C(x, A("a"))
        yield C(x, A("a"), I(1))
        yield C("f", A(x))
        yield C("-", A(x))
        yield C("-", A(x), A(x))
        yield L([A(x)])
        yield L([A(x)], Vr(1))
        yield St(x)
        yield St(x, Vr(1))
        yield C("f", St(x))
        yield C("{}", A(x))


def families(tier):
    """-> list of (family name, table name, generator thunk)"""
    thorough = tier == "thorough"
    fam = []
    lvf1 = leaves(A_FULL, NUMS_FULL, 1)
    lvf2 = leaves(A_FULL, NUMS_FULL, 2)
    if thorough:
        fam.append(("vocab3", "default", lambda: gen_small(A_FULL, lvf1, lvf2)))
    else:
        lvc = leaves(A_CORE, NUMS_CORE, 1)
        lvc2 = leaves(A_CORE, NUMS_CORE, 2)

        def g():
            # size <= 2 over the full vocabulary, size 3 with core leaves
            for x in lvf1:
                yield x
            for f in A_FULL:
                for x in lvf1:
                    yield C(f, x)
            for f in A_FULL:
                for x in lvc:
                    for y in lvc2:
                        yield C(f, x, y)
            for f in A_FULL:
                for gg in A_FULL:
                    for x in lvc:
                        yield C(f, C(gg, x))
        fam.append(("vocab3", "default", g))
    fam.append(("nests", "default", lambda: gen_nests(NEST_F, NEST_LT[:6] if thorough else NEST_LQ)))
    fam.append(("lists", "default", lambda: gen_lists(tier)))
    fam.append(("unicode", "default", gen_unicode))
    fam.append(("dvar", "default", gen_dvar))
    fam.append(("rat", "default", gen_rat))
    # user operator tables: only terms that mention the user operator
    if thorough:
        tabs = [t for t in TABLES if t.startswith("foo_")]
        ul = [A("foo"), A("a"), I(1), I(-1), A("-"), Vr(1)]
    else:
        tabs = ["foo_fy_200", "foo_fy_700", "foo_fy_1200", "foo_xfx_200", "foo_xfx_700", "foo_xfx_1200",
                "foo_xf_200", "foo_xf_700", "foo_xf_1200", "foo_yfx_700", "foo_xfy_200", "foo_fx_700",
                "foo_yf_200", "foo_fy200_yfx500"]
        ul = [A("foo"), A("a"), I(1), I(-1)]
    for tb in tabs:
        def g(ul=ul):
            for d in gen_small(USER_F, ul + [A("-"), Vr(1)], ul + [A("-"), Vr(1), Vr(2)]):
                if mentions(d, "foo"):
                    yield d
            for d in gen_nests(USER_F, ul, must=("foo",), deep=True):
                yield d
        fam.append(("userop", tb, g))
    for tb in ["A_xfx_700", "A_fy_200", "A_xf_200"]:
        def g():
            ul2 = [A("A"), A("a"), I(0), I(1), I(-1), A("-"), F(1.0), Vr(1)]
            for d in gen_small(["A", "-", "f", "="], ul2, ul2 + [Vr(2)]):
                if mentions(d, "A"):
                    yield d
            for d in gen_nests(["A", "-", "f", "="], ul2[:5], must=("A",), deep=thorough):
                yield d
        fam.append(("userop", tb, g))

    def gm():
        ml = [A("a"), I(1), I(-1), A("-")] + ([F(1.0), F(-1.0), Vr(1)] if thorough else [])
        for d in gen_small(MINUS_F, ml + [Vr(1)], ml + [Vr(1), Vr(2)]):
            if mentions(d, "-"):
                yield d
        for d in gen_nests(MINUS_F, ml, must=("-",), deep=True):
            yield d
    fam.append(("nominus", "nominus", gm))
    return [(n, t, _with_copies(g)) for (n, t, g) in fam]


def _with_copies(g):
    """every term that has variables is also enumerated through copy_term/2"""
    def gen():
        for d in g():
            yield d
            if has_var(d):
                yield K(d)
    return gen


def mentions(d, name):
    k = d[0]
    if k == "a":
        return d[1] == name
    if k == "c":
        return d[1] == name or any(mentions(x, name) for x in d[2])
    if k == "l":
        return any(mentions(x, name) for x in d[1]) or mentions(d[2], name)
    if k == "s":
        return mentions(d[2], name)
    if k == "k":
        return mentions(d[1], name)
    return False


def count_families(tier):
    return [(n, t, sum(1 for _ in g())) for (n, t, g) in families(tier)]
