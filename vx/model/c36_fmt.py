"""C36 oracle: format_//2 as documented in the directive table of
src/lib/format.pl. `render(items)` returns the SET of acceptable output
strings for a parsed format string with its arguments, or ERROR.

A format string is given abstractly as a list of items so that the Python
side never has to re-parse text it generated:
    ("lit", text)                       literal characters (no '~')
    ("dir", letter, N, arg...)          a directive; N is None (omitted), an int,
                                        or ("*", value) for the ~* form
    ("fill", char)                      ~t (char ' ') or ~`ct
    ("stop", kind, N)                   kind '|' with N None -> ~| ; '|' with int -> ~N| ; '+' -> ~N+
Where the documentation is silent the set holds every defensible output.
"""
import itertools
from decimal import Decimal, ROUND_HALF_UP, ROUND_HALF_EVEN, ROUND_HALF_DOWN, localcontext

ERROR = "ERROR"

DIGITS = "0123456789abcdefghijklmnopqrstuvwxyz"


def radix(v, r, upper):
    if v == 0:
        return "0"
    s = ""
    a = abs(v)
    while a:
        s = DIGITS[a % r] + s
        a //= r
    if upper:
        s = s.upper()
    return ("-" if v < 0 else "") + s


def dec_point(v, n):
    """~Nd: the last n digits after a decimal point"""
    if n == 0:
        return str(v)
    s = str(abs(v)).rjust(n + 1, "0")
    return ("-" if v < 0 else "") + s[:-n] + "." + s[-n:]


def group3(text, sep):
    """~ND / ~NU on the output of ~Nd: group the integer part in threes"""
    sign = "-" if text.startswith("-") else ""
    body = text[len(sign):]
    ip, dot, fp = body.partition(".")
    out = ""
    while len(ip) > 3:
        out = sep + ip[-3:] + out
        ip = ip[:-3]
    return sign + ip + out + dot + fp


def lines_width(v, n):
    """~NL: at most n digits per line. The documentation fixes neither the line
    continuation mark nor whether the sign counts: four variants."""
    if n == 0:
        n = 72
    s = str(v)
    out = set()
    for sign_counts in (True, False):
        if sign_counts or v >= 0:
            chunks = [s[i:i + n] for i in range(0, len(s), n)] or [""]
        else:
            d = s[1:]
            chunks = [d[i:i + n] for i in range(0, len(d), n)]
            chunks[0] = "-" + chunks[0]
        for joiner in ("_\n", "\n"):
            out.add(joiner.join(chunks))
    return out


def float_fixed(x, n):
    """~Nf candidates: exactly n digits after the point; a correct rounding (any tie
    rule) of the exact binary value or of the shortest round-trip decimal. x may be
    an int. For n == 0 'no digits after the point' admits both '3' and '3.'. A
    negative input that rounds to zero may or may not keep its sign."""
    import math
    cands = set()
    if isinstance(x, int):
        vals = [Decimal(x)]
        neg_input = x < 0
    else:
        vals = [Decimal(x), Decimal(repr(x))]
        neg_input = math.copysign(1.0, x) < 0
    q = Decimal(1).scaleb(-n)
    with localcontext() as ctx:
        ctx.prec = 400
        for v in vals:
            for mode in (ROUND_HALF_UP, ROUND_HALF_EVEN, ROUND_HALF_DOWN):
                r = v.quantize(q, rounding=mode)
                t = format(abs(r), "f")
                if r == 0:
                    signed = [t] + (["-" + t] if neg_input else [])
                else:
                    signed = [("-" if r < 0 else "") + t]
                for a in signed:
                    if n == 0:
                        a = a.split(".")[0]
                        cands.add(a)
                        cands.add(a + ".")
                    else:
                        cands.add(a)
    return cands


def float_text_ok(x, n, text):
    """third admissible class for large n: exactly n fraction digits and the
    decimal reads back as the same double"""
    if n < 15 or isinstance(x, int):
        return False
    ip, dot, fp = text.partition(".")
    if dot != "." or len(fp) != n or not fp.isdigit() or not ip.lstrip("-").isdigit():
        return False
    try:
        return float(text) == x
    except ValueError:
        return False


# --------------------------------------------------------------------------

def resolve_n(n):
    """-> (value | None, consumed star arg?) ; raises Bad for an ill-typed ~* value"""
    if isinstance(n, tuple):
        if isinstance(n[1], bool) or not isinstance(n[1], int) or n[1] < 0:
            raise Bad()
        return n[1]
    return n


class Bad(Exception):
    pass


def dir_alternatives(item, twin):
    """("dir", letter, N, arg) -> set of texts | raises Bad. twin(kind, argtext) gives
    the text write/1 or writeq/1 produced for that argument on the same machine."""
    _, letter, n, arg = item
    n = resolve_n(n)
    kind = arg[0] if arg is not None else None   # arg = (kind, value, source text)
    val = arg[1] if arg is not None else None
    if letter in ("w", "q", "a", "s", "i", "~"):
        if n is not None:
            raise Bad()
    if letter == "~":
        return {"~"}
    if arg is None:
        raise Bad()
    if letter == "w":
        return {twin("write", arg[2])}
    if letter == "q":
        return {twin("writeq", arg[2])}
    if letter == "i":
        return {""}
    if letter == "a":
        if kind != "atom":
            raise Bad()
        return {val}
    if letter == "s":
        if kind != "string":
            raise Bad()
        return {val}
    if letter in ("d", "D", "U", "L", "r", "R"):
        if kind != "int":
            raise Bad()
        if letter == "d":
            return {dec_point(val, n or 0)}
        if letter == "D":
            return {group3(dec_point(val, n or 0), ",")}
        if letter == "U":
            return {group3(dec_point(val, n or 0), "_")}
        if letter == "L":
            return lines_width(val, n or 0)
        r = 8 if n is None else n
        if not 2 <= r <= 36:
            raise Bad()
        return {radix(val, r, letter == "R")}
    if letter == "f":
        if kind not in ("float", "int"):
            raise Bad()
        return ("float", val, 6 if n is None else n)
    raise Bad()


def expand(items, twin):
    """-> list of element lists (one per combination of directive alternatives) | ERROR.
    elements: ("txt", s) | ("fill", c) | ("stop", kind, n) | ("nl",) ; float directives
    stay symbolic as ("flt", x, n) and are matched separately."""
    seqs = [[]]
    try:
        for it in items:
            if it[0] == "lit":
                alts = [[("txt", it[1])]]
            elif it[0] == "fill":
                alts = [[("fill", it[1])]]
            elif it[0] == "stop":
                n = resolve_n(it[2])
                if it[1] == "+" and n is None:
                    n = 0   # documented only with N; generated spaces never omit it
                alts = [[("stop", it[1], n)]]
            elif it[0] == "dir" and it[1] == "n":
                n = resolve_n(it[2])
                alts = [[("nl",)] * (1 if n is None else n)]
            elif it[0] == "dir":
                a = dir_alternatives(it, twin)
                if isinstance(a, tuple):
                    alts = [[("flt", a[1], a[2])]]
                else:
                    alts = [[("txt", s)] for s in sorted(a)]
            else:
                raise Bad()
            seqs = [s + a for s in seqs for a in alts]
    except Bad:
        return ERROR
    return seqs


def layouts(elems):
    """column layout of one element list -> set of strings. ("flt") elements must have
    been replaced by text before calling."""
    results = set()

    def cell_variants(pending, width):
        """pending: list of ('txt', s) | ('fill', c) ; width None = no closing stop"""
        content = sum(len(e[1]) for e in pending if e[0] == "txt")
        fills = [i for i, e in enumerate(pending) if e[0] == "fill"]

        def build(pads, right=0):
            out = ""
            k = 0
            for e in pending:
                if e[0] == "txt":
                    out += e[1]
                else:
                    out += e[1] * pads[k]
                    k += 1
            return out + " " * right
        if width is None or width - content <= 0:
            return [build([0] * len(fills))]
        space = width - content
        if not fills:
            # no fill point: the table does not say; no padding or pad on the right
            return [build([]), build([], right=space)]
        k = len(fills)
        q, r = divmod(space, k)
        outs = []
        if r == 0:
            outs.append(build([q] * k))
        else:
            for extra in itertools.product(range(r + 1), repeat=k):
                if sum(extra) == r:
                    outs.append(build([q + e for e in extra]))
        return outs

    def go(i, out, pending, last_stop, linepos_known):
        # pending: elements since the last stop
        while i < len(elems):
            e = elems[i]
            if e[0] in ("txt", "fill"):
                pending = pending + [e]
                i += 1
            elif e[0] == "nl":
                for v in cell_variants(pending, None):
                    go(i + 1, out + v + "\n", [], 0, True)
                return
            elif e[0] == "stop":
                content = sum(len(x[1]) for x in pending if x[0] == "txt")
                if e[1] == "|" and e[2] is None:
                    target = last_stop + content
                elif e[1] == "|":
                    target = e[2]
                else:
                    target = last_stop + e[2]
                width = target - last_stop
                over = content > width
                for v in cell_variants(pending, width):
                    nexts = {target}
                    if over:
                        nexts.add(last_stop + content)   # nominal or actual position: both defensible
                    for ns in nexts:
                        go(i + 1, out + v, [], ns, True)
                return
            else:
                raise ValueError(e)
        for v in cell_variants(pending, None):
            results.add(out + v)
    go(0, "", [], 0, True)
    return results


def render(items, twin):
    """-> ERROR | list of element lists ready for matching (see match)"""
    return expand(items, twin)


def match(seqs, observed):
    """does the observed text belong to the acceptable set?"""
    for elems in seqs:
        flts = [e for e in elems if e[0] == "flt"]
        if not flts:
            if observed in layouts(elems):
                return True
            continue
        # float directives: enumerate the candidate texts, plus (large n) accept any
        # read-back-exact decimal found at that position when the rest is literal
        choices = [sorted(float_fixed(e[1], e[2])) for e in flts]
        for combo in itertools.product(*choices):
            it = iter(combo)
            el2 = [("txt", next(it)) if e[0] == "flt" else e for e in elems]
            if observed in layouts(el2):
                return True
        if len(flts) == 1 and all(e[0] in ("txt", "flt") for e in elems):
            k = [i for i, e in enumerate(elems) if e[0] == "flt"][0]
            pre = "".join(e[1] for e in elems[:k])
            post = "".join(e[1] for e in elems[k + 1:])
            if observed.startswith(pre) and observed.endswith(post) and len(observed) >= len(pre) + len(post):
                mid = observed[len(pre):len(observed) - len(post)]
                if float_text_ok(flts[0][1], flts[0][2], mid):
                    return True
    return False


def describe(seqs, limit=6):
    """a short rendering of the acceptable set for reports"""
    if seqs == ERROR:
        return "an error and no output"
    outs = set()
    for elems in seqs:
        flts = [e for e in elems if e[0] == "flt"]
        choices = [sorted(float_fixed(e[1], e[2])) for e in flts]
        for combo in itertools.product(*choices):
            it = iter(combo)
            el2 = [("txt", next(it)) if e[0] == "flt" else e for e in elems]
            outs |= layouts(el2)
            if len(outs) > 40:
                break
    outs = sorted(outs)
    return " | ".join(repr(o) for o in outs[:limit]) + (" | ..." if len(outs) > limit else "")
