"""Float / mixed-type reference arithmetic shared by C02, C03, C04 (numbers.py
stays the integer part).  Everything here is stdlib: Fraction for exact
values, Python float for correctly rounded + - * / sqrt and int/rational ->
double conversion, glibc libm through ctypes for the transcendental functions.

A reference result is a *list of acceptable alternatives*:
    ('v', value, tol)   value int | Fraction | float; tol = ulps allowed (floats)
    ('e', formal)       an ISO error formal, e.g. ('evaluation_error','undefined')
"""
import ctypes
import math
import struct
from fractions import Fraction

from . import numbers as N

# --------------------------------------------------------------------------
# alphabets

_P = 2.0 ** 55
_posf = [
    0.0, 5e-324, 2.2250738585072009e-308, 2.2250738585072014e-308, 1e-10, 0.1, 0.5, 1.0,
    1.5, 2.0, 2.5, 3.0, 1e10, 2.0 ** 52 - 0.5, 2.0 ** 52, 2.0 ** 52 + 1, 2.0 ** 53, 2.0 ** 53 + 2,
    math.nextafter(_P, 0.0), _P, math.nextafter(_P, math.inf),
    1e22, 1e23, 2.0 ** 63, 2.0 ** 64, 1e300, 1.7976931348623157e308,
]
FLT = []
for _f in _posf:
    FLT.append(_f)
    FLT.append(-_f)
FLT += [math.nextafter(1.0, 2.0), math.nextafter(1.0, 0.0), math.pi / 2, math.pi, math.e,
        0.49999999999999994, 3.5, -3.5, 0.75, -0.75, 709.0, 710.0, -745.0, -746.0, 1e-320, 4.0]

assert len(set(struct.pack("<d", _f) for _f in FLT)) == len(FLT)
HUGE = 2 ** 1024   # an integer with no finite double

FLT_SMALL = [0.0, -0.0, 0.5, -2.5, 3.0, 1e300, 5e-324, -1.7976931348623157e308, 2.0 ** 55, 9007199254740993.0]


class RI(Fraction):
    """an integral value held as a rational (e.g. the result of 1r2 + 1r2): whether that is
    an integer or a rational is an implementation detail, so nests try both"""


def kind(x):
    if isinstance(x, float):
        return "f"
    if isinstance(x, RI):
        return "r"
    if isinstance(x, Fraction) and x.denominator != 1:
        return "r"
    return "i"


def is_exact(x):
    return not isinstance(x, float)


# --------------------------------------------------------------------------
# bit-level float helpers

def bits(f):
    return struct.unpack("<q", struct.pack("<d", f))[0]


def ordered(f):
    """monotone map double -> int (-0.0 and 0.0 both map to 0)"""
    b = bits(f)
    return b if b >= 0 else -(b & 0x7FFFFFFFFFFFFFFF)


def ulp_dist(a, b):
    return abs(ordered(a) - ordered(b))


def same_float(a, b, tol=0):
    """bitwise equality with -0.0 == 0.0; or within tol ulps"""
    if a != a or b != b:
        return False
    if tol == 0:
        return ordered(a) == ordered(b)
    return ulp_dist(a, b) <= tol


def is_subnormal(f):
    return f != 0.0 and abs(f) < 2.2250738585072014e-308


def fclass(f):
    """coarse float class for violation signatures"""
    a = abs(f)
    s = "-" if math.copysign(1.0, f) < 0 else "+"
    if a == 0:
        return s + "0.0"
    if a < 2.2250738585072014e-308:
        return s + "fsub"
    if a < 1:
        return s + "f<1"
    for k in (0, 31, 52, 53, 55, 63, 64):
        b = 2.0 ** k
        if a == b:
            return s + "f=2^%d" % k
        if a < b:
            return s + "f<2^%d" % k
    if a < 1e300:
        return s + "f<1e300"
    return s + "fhuge"


def nclass(x):
    if isinstance(x, float):
        return fclass(x)
    if kind(x) == "r":
        return "rat"
    return N.mag_class(int(x))


# --------------------------------------------------------------------------
# errors

OVF = ("e", ("evaluation_error", "float_overflow"))
UND = ("e", ("evaluation_error", "undefined"))
ZDIV = ("e", ("evaluation_error", "zero_divisor"))


SKIP = ("skip",)


def TE(t, culprit=None):
    return ("e", ("type_error", t, culprit))


def V(x, tol=0):
    return ("v", x, tol)


class Ovf(Exception):
    pass


def to_float(x):
    """correctly rounded (RNE) conversion; raises Ovf if no finite double"""
    if isinstance(x, float):
        return x
    try:
        f = float(x)
    except OverflowError:
        raise Ovf()
    if math.isinf(f):
        raise Ovf()
    return f


def fin(f, tol=0):
    """classify an IEEE result: finite -> value, inf -> overflow, nan -> undefined"""
    if f != f:
        return UND
    if math.isinf(f):
        return OVF
    return V(f, tol)


# --------------------------------------------------------------------------
# libm

_libm = ctypes.CDLL("libm.so.6")
_D = ctypes.c_double


def _f1(name):
    fn = getattr(_libm, name)
    fn.restype = _D
    fn.argtypes = [_D]
    return fn


def _f2(name):
    fn = getattr(_libm, name)
    fn.restype = _D
    fn.argtypes = [_D, _D]
    return fn


LIBM1 = {n: _f1(n) for n in ("exp", "log", "sin", "cos", "tan", "asin", "acos", "atan")}
LIBM_POW = _f2("pow")
LIBM_ATAN2 = _f2("atan2")

TRANSC = ["exp", "log", "sin", "cos", "tan", "asin", "acos", "atan"]
ROUNDERS = ["truncate", "round", "ceiling", "floor"]
UNARY = ["sqrt"] + TRANSC + ["float", "float_integer_part", "float_fractional_part"] + ROUNDERS + ["abs", "sign", "-"]
BINARY = ["/", "**", "^", "atan2", "+", "-", "*", "min", "max"]


def _akey(a):
    if a[0] == "v":
        v = a[1]
        if isinstance(v, float):
            return ("v", "f", struct.pack("<d", v), a[2])
        return ("v", "x", Fraction(v), a[2])
    return a


def dedup(alts):
    out = []
    seen = set()
    for a in alts:
        k = _akey(a)
        if k not in seen:
            seen.add(k)
            out.append(a)
    return out


# --------------------------------------------------------------------------
# reference: unary

def ref_unary(op, x):
    """list of acceptable alternatives for `op(x)`"""
    if op == "-":
        return [V(-x)]
    if op == "abs":
        return [V(abs(x))]
    if op == "sign":
        if isinstance(x, float):
            return [V(0.0 if x == 0 else math.copysign(1.0, x))]
        return [V((x > 0) - (x < 0))]
    if op in ROUNDERS:
        q = Fraction(x)
        if op == "floor":
            return [V(math.floor(q))]
        if op == "ceiling":
            return [V(math.ceil(q))]
        if op == "truncate":
            return [V(math.trunc(q))]
        # round: ISO 9.1.6.1 floor(x + 1/2); Rust/SWI round half away from zero.
        a = math.floor(q + Fraction(1, 2))
        b = -math.floor(-q + Fraction(1, 2))
        return dedup([V(b if q < 0 else a), V(a)])
    # float valued from here on
    if op == "sqrt" and x < 0:
        return [UND]
    try:
        f = to_float(x)
    except Ovf:
        return [OVF]
    if op == "float":
        return [V(f)]
    if op == "sqrt":
        return [V(math.sqrt(f))]
    if op == "float_integer_part":
        return [V(float(math.trunc(f)) if abs(f) < 2.0 ** 53 else f)]
    if op == "float_fractional_part":
        return [V(math.fmod(f, 1.0))]
    if op == "log":
        if f == 0:
            return [UND, OVF]
        if f < 0:
            return [UND]
    r = LIBM1[op](f)
    return [fin(r, 1)]


# --------------------------------------------------------------------------
# reference: binary

def _cmp_c04(a, b):
    """comparison as C04 states it: exact between exact numbers, after converting
    the exact side to double when one side is a float. -> -1/0/1 or None (overflow)"""
    if is_exact(a) and is_exact(b):
        fa, fb = Fraction(a), Fraction(b)
    else:
        try:
            fa, fb = to_float(a), to_float(b)
        except Ovf:
            return None
    return (fa > fb) - (fa < fb)


def ref_binary(op, a, b):
    both_exact = is_exact(a) and is_exact(b)
    if op in ("+", "-", "*"):
        if both_exact:
            fa, fb = Fraction(a), Fraction(b)
            r = fa + fb if op == "+" else fa - fb if op == "-" else fa * fb
            if kind(a) == "i" and kind(b) == "i":
                return [V(int(r))]
            return [V(r)]
        try:
            fa, fb = to_float(a), to_float(b)
        except Ovf:
            return [OVF]
        r = fa + fb if op == "+" else fa - fb if op == "-" else fa * fb
        return [fin(r)]
    if op == "/":
        if b == 0:
            return [ZDIV, UND] if a == 0 else [ZDIV]
        alts = []
        try:
            fa, fb = to_float(a), to_float(b)
            if fb == 0:
                alts.append(ZDIV)   # cannot happen for finite non-zero b, kept for clarity
            else:
                alts.append(fin(fa / fb))
        except Ovf:
            alts.append(OVF)
        if both_exact:
            # the correctly rounded exact quotient is an equally good reference
            try:
                alts.append(V(to_float(Fraction(a) / Fraction(b))))
            except Ovf:
                alts.append(OVF)
        return dedup(alts)
    if op == "atan2":
        if a == 0 and b == 0:
            return [UND]
        try:
            fa, fb = to_float(a), to_float(b)
        except Ovf:
            return [OVF]
        return [fin(LIBM_ATAN2(fa, fb), 1)]
    if op in ("**", "^"):
        int_int = kind(a) == "i" and kind(b) == "i"
        if op == "^" and int_int:
            if abs(a) > 1 and b > 4096:
                return [SKIP]    # astronomically large exact result: not executed at all
            r = N.int_binop("^", int(a), int(b))
            if isinstance(r, tuple):
                return [("e", r[1])]
            return [V(r)]
        if a == 0 and b < 0:
            return [UND, OVF]
        alts = []
        if int_int and b >= 0 and (abs(a) <= 1 or b <= 4096):
            alts.append(V(int(a) ** int(b)))        # ISO Cor.2 reading of int ** int
        if op == "^" and kind(b) == "i" and is_exact(a) and (b >= 0 or a != 0) and abs(b) <= 4096:
            alts.append(V(Fraction(a) ** int(b)))   # a system with rationals may stay exact
        try:
            fa, fb = to_float(a), to_float(b)
        except Ovf:
            return dedup(alts + [OVF])
        if fa < 0 and fb != math.floor(fb):
            return dedup(alts + [UND])
        alts.append(fin(LIBM_POW(fa, fb), 1))
        return dedup(alts)
    if op in ("min", "max"):
        c = _cmp_c04(a, b)
        if c is None:
            return [OVF]
        if c == 0:
            cands = [a, b]
        elif (c < 0) == (op == "min"):
            cands = [a]
        else:
            cands = [b]
        alts = []
        mixed_exact = both_exact and kind(a) != kind(b)
        if mixed_exact:
            # int vs rational is outside the statement (no float involved); an implementation
            # that compares the two through doubles is tolerated
            try:
                fa, fb = to_float(a), to_float(b)
                if fa == fb:
                    cands = [a, b]
            except Ovf:
                alts.append(OVF)
        for w in cands:
            alts.append(V(w))
            if is_exact(w) and (not both_exact or mixed_exact):
                try:
                    alts.append(V(to_float(w)))
                except Ovf:
                    pass
        return dedup(alts)
    raise KeyError(op)


# --------------------------------------------------------------------------
# expression trees:  number | (op, x) | (op, x, y)

def ref_eval(t):
    """alternatives for a tree; inner nodes must have exact (tol 0) references
    for the composition to be meaningful, which holds for the ops used in nests"""
    if not isinstance(t, tuple):
        return [V(t)]
    op = t[0]
    args = [ref_eval(x) for x in t[1:]]
    out = []

    def rec(i, vals):
        if i == len(args):
            if len(vals) == 1:
                out.extend(ref_unary(op, vals[0]))
            else:
                out.extend(ref_binary(op, vals[0], vals[1]))
            return
        for alt in args[i]:
            if alt[0] == "skip":
                out.append(alt)
            elif alt[0] == "e":
                out.append(alt)
            else:
                v = alt[1]
                if isinstance(v, Fraction) and v.denominator == 1:
                    rec(i + 1, vals + [int(v)])
                    rec(i + 1, vals + [RI(v)])
                else:
                    rec(i + 1, vals + [v])
    rec(0, [])
    return dedup(out)


def match(alts, observed_kind, observed):
    """observed_kind: 'v' (a number) or 'e' (an error formal). -> bool"""
    for alt in alts:
        if alt[0] != observed_kind:
            continue
        if observed_kind == "e":
            want = alt[1]
            got = observed
            if want == got:
                return True
            if isinstance(want, tuple) and isinstance(got, tuple) and want[0] == got[0] == "type_error" \
                    and want[1] == got[1]:
                return True
        else:
            want, tol = alt[1], alt[2]
            if isinstance(want, float) != isinstance(observed, float):
                continue
            if isinstance(want, float):
                if same_float(want, observed, tol):
                    return True
            elif isinstance(observed, (int, Fraction)) and not isinstance(observed, bool) and Fraction(observed) == Fraction(want):
                return True
    return False


def show_alts(alts):
    out = []
    for a in alts:
        if a[0] == "e":
            out.append("error(%s)" % (a[1],))
        else:
            v = a[1]
            out.append(("%r" % v) + ("~%dulp" % a[2] if a[2] else ""))
    return " | ".join(out)


# --------------------------------------------------------------------------
# source text

class A(int):
    """an integer leaf to be written in the 'arith' encoding (held in a bignum cell)"""


def num_text(x, enc="lit"):
    """source text of a number; enc 'arith' holds an integer in a bignum cell"""
    from vx.core import terms
    if isinstance(x, A):
        return N.int_text(int(x), "arith")
    if isinstance(x, float):
        return terms.fmt_num(x)
    if kind(x) == "r":
        return terms.fmt_num(Fraction(x))
    return N.int_text(int(x), enc)


FUNCTIONAL = {"min", "max", "atan2", "gcd", "xor"}


def tree_text(t, enc="lit"):
    if not isinstance(t, tuple):
        return num_text(t, enc)
    op = t[0]
    if len(t) == 2:
        x = tree_text(t[1], enc)
        if op in ("-", "+", "\\"):
            return "(%s %s)" % (op, x)
        return "%s(%s)" % (op, x)
    x, y = tree_text(t[1], enc), tree_text(t[2], enc)
    if op in FUNCTIONAL:
        return "%s(%s,%s)" % (op, x, y)
    return "(%s %s %s)" % (x, op, y)
