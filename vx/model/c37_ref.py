"""C37 reference algorithms not in the Python standard library:
ChaCha20-Poly1305 AEAD (RFC 8439), written directly from the RFC.
Self-test vectors (RFC 8439 §2.8.2) are checked at import time."""
import struct


def _rotl(v, c):
    return ((v << c) & 0xffffffff) | (v >> (32 - c))


def _qr(s, a, b, c, d):
    s[a] = (s[a] + s[b]) & 0xffffffff
    s[d] = _rotl(s[d] ^ s[a], 16)
    s[c] = (s[c] + s[d]) & 0xffffffff
    s[b] = _rotl(s[b] ^ s[c], 12)
    s[a] = (s[a] + s[b]) & 0xffffffff
    s[d] = _rotl(s[d] ^ s[a], 8)
    s[c] = (s[c] + s[d]) & 0xffffffff
    s[b] = _rotl(s[b] ^ s[c], 7)


def chacha20_block(key, counter, nonce):
    st = list(struct.unpack("<4I", b"expand 32-byte k")) + list(struct.unpack("<8I", key)) + [counter] + list(struct.unpack("<3I", nonce))
    w = list(st)
    for _ in range(10):
        _qr(w, 0, 4, 8, 12)
        _qr(w, 1, 5, 9, 13)
        _qr(w, 2, 6, 10, 14)
        _qr(w, 3, 7, 11, 15)
        _qr(w, 0, 5, 10, 15)
        _qr(w, 1, 6, 11, 12)
        _qr(w, 2, 7, 8, 13)
        _qr(w, 3, 4, 9, 14)
    return struct.pack("<16I", *[(a + b) & 0xffffffff for a, b in zip(w, st)])


def chacha20_encrypt(key, counter, nonce, data):
    out = bytearray()
    for j in range(0, len(data), 64):
        ks = chacha20_block(key, counter + j // 64, nonce)
        out += bytes(a ^ b for a, b in zip(data[j:j + 64], ks))
    return bytes(out)


def poly1305(key, msg):
    r = int.from_bytes(key[:16], "little") & 0x0ffffffc0ffffffc0ffffffc0fffffff
    s = int.from_bytes(key[16:32], "little")
    p = (1 << 130) - 5
    acc = 0
    for i in range(0, len(msg), 16):
        n = int.from_bytes(msg[i:i + 16] + b"\x01", "little")
        acc = ((acc + n) * r) % p
    return ((acc + s) & ((1 << 128) - 1)).to_bytes(16, "little")


def _pad16(b):
    return b"\x00" * (-len(b) % 16)


def aead_encrypt(key, nonce, plaintext, aad=b""):
    """-> (ciphertext, tag)"""
    otk = chacha20_block(key, 0, nonce)[:32]
    ct = chacha20_encrypt(key, 1, nonce, plaintext)
    mac = aad + _pad16(aad) + ct + _pad16(ct) + struct.pack("<Q", len(aad)) + struct.pack("<Q", len(ct))
    return ct, poly1305(otk, mac)


def _selftest():
    key = bytes(range(0x80, 0xa0))
    nonce = bytes([7, 0, 0, 0, 0x40, 0x41, 0x42, 0x43, 0x44, 0x45, 0x46, 0x47])
    aad = bytes.fromhex("50515253c0c1c2c3c4c5c6c7")
    pt = (b"Ladies and Gentlemen of the class of '99: If I could offer you only one tip for the future, "
          b"sunscreen would be it.")
    ct, tag = aead_encrypt(key, nonce, pt, aad)
    assert ct[:16].hex() == "d31a8d34648e60db7b86afbc53ef7ec2", ct[:16].hex()
    assert tag.hex() == "1ae10b594f09e26a7e902ecbd0600691", tag.hex()


_selftest()
