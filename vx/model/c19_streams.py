"""Reference model of an input stream for C19 (written from ISO 13211-1 §7.10,
§8.11-8.14 and the property statement, not from streams.rs).

A model state is the tuple (off, past, la, lr, sv):
  off   byte offset of the next unread byte
  past  the stream is past end-of-stream
  la    newlines consumed so far by any operation (None = unknown after a seek)
  lr    newlines consumed by read_term only (None = unknown) -- the reading of
        "lines read" that the implementation's position term name suggests
  sv    byte offset held by the saved position term (updated by `pr`)
or the string TAINT (the stream was driven outside the modelled sub-language,
e.g. read_term on text that is not a simple term; nothing is compared after).

`step` is a nondeterministic transition function: it returns every
(expected observation, successor state, flag) the statement allows.  Where the
standard / the statement leave a choice (does read_term consume the layout
character after the end token?  is `reset` a rewind or a plain retry?  does
get_n_chars mark the stream past end?) all choices are returned and the
checker keeps the candidates that agree with the implementation's answer, so
that every later observation (position, next character, at_end_of_stream)
must be consistent with ONE reading of the earlier data consumption.
`flag` is None for outcomes the statement allows and a short name for
outcomes that are *recognised deviations* (reported as violations under that
name, after which checking continues from the deviating state).
"""
import re

TAINT = "TAINT"

EOF_CHAR = "end_of_file"


def init_state():
    return (0, False, 0, 0, 0)


def _dec(data, off):
    """decode the UTF-8 character at off -> (char, width)"""
    b = data[off]
    w = 1 if b < 0x80 else 2 if b < 0xE0 else 3 if b < 0xF0 else 4
    return data[off:off + w].decode("utf-8"), w


_SIMPLE = re.compile(r"([ \t\n]*)([a-z][a-z0-9]*|[0-9]+)\.")
_LAYOUT = re.compile(r"[ \t\n]*\Z")


class Ctx:
    def __init__(self, data, typ, eof):
        self.data = data
        self.typ = typ      # 'text' | 'binary'
        self.eof = eof      # 'error' | 'eof_code' | 'reset'
        self.n = len(data)
        self.text = data.decode("utf-8") if typ == "text" else None


def _past_entry(ctx, st, eofval):
    """what the eof_action does when an input operation finds the stream past
    end: list of ('obs', obs, st) final outcomes or ('go', st) continuations"""
    off, past, la, lr, sv = st
    if ctx.eof == "error":
        return [("obs", ("e", ("permission_error", "input", "past_end_of_stream")), st)]
    if ctx.eof == "eof_code":
        return [("obs", ("r", eofval), st)]
    # reset: the stream is made not-past and the read is attempted again;
    # either in place (ISO wording) or from the start (a rewind)
    return [("go", (0, False, 0, 0, sv)), ("go", (off, False, la, lr, sv))]


def _wrong_type(ctx):
    return ("e", ("permission_error", "input", "text_stream" if ctx.typ == "text" else "binary_stream"))


def step(ctx, st, op):
    """-> list of (expected_obs, new_state, flag)"""
    if st == TAINT:
        return [(None, TAINT, None)]
    off, past, la, lr, sv = st
    data, n = ctx.data, ctx.n

    if op in ("gc", "pc", "gd", "pd", "gb", "pb"):
        unit = op[1]
        peek = op[0] == "p"
        want = "binary" if unit == "b" else "text"
        if ctx.typ != want:
            return [(_wrong_type(ctx), st, None)]
        eofval = EOF_CHAR if unit == "c" else -1
        out = []
        starts = [st]
        if past:
            starts = []
            for e in _past_entry(ctx, st, eofval):
                if e[0] == "obs":
                    out.append((e[1], e[2], None))
                else:
                    starts.append(e[1])
        for s in starts:
            o, p, a, r, v = s
            if o >= n:
                out.append((("r", eofval), (o, p if peek else True, a, r, v), None))
                continue
            if unit == "b":
                val, w, nl = data[o], 1, data[o] == 10
            else:
                ch, w = _dec(data, o)
                nl = ch == "\n"
                val = ch if unit == "c" else ord(ch)
            if peek:
                out.append((("r", val), s, None))
            else:
                out.append((("r", val), (o + w, False, _inc(a, nl), r, v), None))
        return _uniq(out)

    if op == "gn":
        out = []
        starts = [st]
        if past:
            # not an ISO predicate: it may apply the eof_action or just deliver nothing
            for e in _past_entry(ctx, st, ""):
                if e[0] == "obs":
                    out.append((e[1], e[2], None))
                else:
                    starts.append(e[1])
        for s in starts:
            o, p, a, r, v = s
            got, k, nls = "", o, 0
            for _ in range(2):
                if k >= n:
                    break
                if ctx.typ == "binary":
                    ch, w = chr(data[k]), 1
                else:
                    ch, w = _dec(data, k)
                got += ch
                k += w
                nls += ch == "\n"
            a2 = None if a is None else a + nls
            out.append((("r", got), (k, p, a2, r, v), None))
            if len(got) < 2 and not p:
                out.append((("r", got), (k, True, a2, r, v), None))
        return _uniq(out)

    if op == "rt":
        if ctx.typ != "text":
            return [(_wrong_type(ctx), st, None)]
        out = []
        starts = [st]
        if past:
            starts = []
            for e in _past_entry(ctx, st, EOF_CHAR):
                if e[0] == "obs":
                    out.append((e[1], e[2], None))
                else:
                    starts.append(e[1])
        for s in starts:
            o, p, a, r, v = s
            rest = data[o:].decode("utf-8")
            if _LAYOUT.match(rest):
                nls = rest.count("\n")
                # only layout is left: end_of_file, the stream is now past
                out.append((("r", EOF_CHAR), (n, True, _add(a, nls), _add(r, nls), v), None))
                # a reading in which the trailing layout is not counted / consumed is allowed too
                out.append((("r", EOF_CHAR), (n, True, a, r, v), None))
                if rest:
                    # recognised deviation: layout before the end of the text is reported
                    # as a syntax error instead of end_of_file
                    for a2, r2 in ((_add(a, nls), _add(r, nls)), (a, r)):
                        out.append((("e", ("syntax_error", "incomplete_reduction")), (n, False, a2, r2, v),
                                    "rt_trailing_layout_syntax_error"))
                continue
            m = _SIMPLE.match(rest)
            if not m:
                out.append((None, TAINT, None))
                continue
            tok = m.group(2)
            val = int(tok) if tok.isdigit() else tok
            end = m.end()
            nls = m.group(1).count("\n")
            endb = o + len(rest[:end].encode("utf-8"))
            if end == len(rest):
                # '.' at the very end of the text: ISO wants a layout character after the end
                # char; accepting end-of-text is common. Either the term or a syntax error.
                out.append((("r", val), (endb, False, _add(a, nls), _add(r, nls), v), None))
                out.append((None, TAINT, None))
                continue
            nxt = rest[end]
            if nxt not in " \t\n%":
                out.append((None, TAINT, None))
                continue
            out.append((("r", val), (endb, False, _add(a, nls), _add(r, nls), v), None))
            if nxt != "%":
                k = nls + (nxt == "\n")
                out.append((("r", val), (endb + 1, False, _add(a, k), _add(r, k), v), None))
        return _uniq(out)

    if op == "ae":
        return [(("r", "true" if (past or off >= n) else "false"), st, None)]

    if op == "pr":
        eos = "past" if past else ("at" if off >= n else "not")
        lines = (la, lr) if ctx.typ == "text" else (None, None)   # a binary stream has no lines
        return [(("r", ("p", off, lines, eos)), (off, past, la, lr, off), None)]

    if op == "sp":
        return [(("r", "ok"), (sv, False, None, None, sv), None)]

    raise ValueError(op)


def _inc(a, cond):
    return None if a is None else a + (1 if cond else 0)


def _add(a, k):
    return None if a is None else a + k


def _uniq(out):
    seen = []
    for x in out:
        if x not in seen:
            seen.append(x)
    return seen


def obs_match(exp, obs):
    """compare an expected observation with the implementation's.
    -> (matches, note) where note is None or 'lines_rt_only' when the line
    component equals the read_term-only count instead of the consumed count"""
    if exp is None:
        return True, None
    if exp[0] == "r" and isinstance(exp[1], tuple) and exp[1][0] == "p":
        if not (obs[0] == "r" and isinstance(obs[1], tuple) and obs[1][0] == "p"):
            return False, None
        _, off, (la, lr), eos = exp[1]
        _, ooff, olines, oeos = obs[1]
        if off != ooff or eos != oeos:
            return False, None
        if la is None or olines == la:
            return True, None
        if olines == lr:
            return True, "lines_rt_only"
        return False, None
    return exp == obs, None


def classify(ctx, st):
    if st == TAINT:
        return "taint"
    off, past = st[0], st[1]
    if past:
        return "past"
    if off >= ctx.n:
        return "at"
    if off == 0:
        return "start"
    return "mid"
