"""A small Python evaluator for the goals of the C25 space: control (',', ';',
'->', '\\+'), =, ==, \\==, member/2 over a literal list, between/3, throw/1,
catch/3 and the all-solutions family (findall/3,4, bagof/3, setof/3,
forall/2, countall/2, call_nth/2).  Goals are vx.core.terms terms.  It is not
a general Prolog: no user predicates, no cut."""
import itertools

from vx.core.terms import V, NIL, mklist, unlist
from vx.model import grpe


class PThrow(Exception):
    def __init__(self, ball):
        Exception.__init__(self, repr(ball))
        self.ball = ball


def err(formal):
    return PThrow(("error", formal, V("_ctx")))


class Env:
    def __init__(self):
        self.n = 0

    def fresh(self):
        self.n += 1
        return V("_f%d" % self.n)


def copy_term(t, s, env):
    """resolved copy with fresh variables"""
    t = grpe.resolve(t, s)
    m = {}

    def rec(x):
        if isinstance(x, V):
            if x not in m:
                m[x] = env.fresh()
            return m[x]
        if isinstance(x, tuple):
            return (x[0],) + tuple(rec(a) for a in x[1:])
        return x
    return rec(t)


def is_callable(t):
    return isinstance(t, (str, tuple))


def partial_list_ok(t, s):
    t = grpe.resolve(t, s)
    el, tail = unlist(t)
    return isinstance(tail, V) or tail == NIL


def solve(g, s, env):
    """generator of substitutions"""
    g = grpe.walk(g, s)
    if isinstance(g, V):
        raise err("instantiation_error")
    if not is_callable(g):
        raise err(("type_error", "callable", g))
    if g == "true":
        yield s
        return
    if g in ("fail", "false"):
        return
    if isinstance(g, str):
        raise err(("existence_error", "procedure", ("/", g, 0)))
    f, n = g[0], len(g) - 1
    if f == "," and n == 2:
        for s1 in solve(g[1], s, env):
            for s2 in solve(g[2], s1, env):
                yield s2
        return
    if f == ";" and n == 2:
        c = grpe.walk(g[1], s)
        if isinstance(c, tuple) and c[0] == "->" and len(c) == 3:
            for s1 in solve(c[1], s, env):
                for s2 in solve(c[2], s1, env):
                    yield s2
                return
            for s2 in solve(g[2], s, env):
                yield s2
            return
        for s1 in solve(g[1], s, env):
            yield s1
        for s1 in solve(g[2], s, env):
            yield s1
        return
    if f == "->" and n == 2:
        for s1 in solve(g[1], s, env):
            for s2 in solve(g[2], s1, env):
                yield s2
            return
        return
    if f == "\\+" and n == 1:
        for _ in solve(g[1], s, env):
            return
        yield s
        return
    if f == "=" and n == 2:
        s1 = grpe.unify(g[1], g[2], s)
        if s1 is not None:
            yield s1
        return
    if f in ("==", "\\==") and n == 2:
        eq = grpe.key_eq(grpe.resolve(g[1], s), grpe.resolve(g[2], s))
        if eq == (f == "=="):
            yield s
        return
    if f == "member" and n == 2:
        el, tail = unlist(grpe.resolve(g[2], s))
        for e in el:
            s1 = grpe.unify(g[1], e, s)
            if s1 is not None:
                yield s1
        return
    if f == "between" and n == 3:
        lo, hi = grpe.walk(g[1], s), grpe.walk(g[2], s)
        for i in range(lo, hi + 1):
            s1 = grpe.unify(g[3], i, s)
            if s1 is not None:
                yield s1
        return
    if f == "throw" and n == 1:
        raise PThrow(copy_term(g[1], s, env))
    if f == "catch" and n == 3:
        it = solve(g[1], s, env)
        while True:
            try:
                s1 = next(it)
            except StopIteration:
                return
            except PThrow as e:
                s2 = grpe.unify(g[2], e.ball, s)
                if s2 is None:
                    raise
                for s3 in solve(g[3], s2, env):
                    yield s3
                return
            yield s1
    if f == "findall" and n in (3, 4):
        if not partial_list_ok(g[3], s):
            raise err(("type_error", "list", grpe.resolve(g[3], s)))
        if n == 4 and not partial_list_ok(g[4], s):
            raise err(("type_error", "list", grpe.resolve(g[4], s)))
        res = [copy_term(g[1], s1, env) for s1 in solve(g[2], s, env)]
        tail = g[4] if n == 4 else NIL
        s1 = grpe.unify(g[3], mklist(res, tail), s)
        if s1 is not None:
            yield s1
        return
    if f in ("bagof", "setof") and n == 3:
        for s1 in bagof(f, g[1], g[2], g[3], s, env):
            yield s1
        return
    if f == "forall" and n == 2:
        for _ in solve((",", g[1], ("\\+", g[2])), s, env):
            return
        yield s
        return
    if f == "countall" and n == 2:
        nn = grpe.walk(g[2], s)
        check_int(nn)
        if isinstance(nn, int) and nn < 0:
            raise err(("domain_error", "not_less_than_zero", nn))
        c = 0
        for _ in solve(g[1], s, env):
            c += 1
        s1 = grpe.unify(g[2], c, s)
        if s1 is not None:
            yield s1
        return
    if f == "call_nth" and n == 2:
        nn = grpe.walk(g[2], s)
        check_int(nn)
        if isinstance(nn, int):
            if nn < 0:
                raise err(("domain_error", "not_less_than_zero", nn))
            if nn == 0:
                return
        c = 0
        for s1 in solve(g[1], s, env):
            c += 1
            if isinstance(nn, int):
                if c == nn:
                    yield s1
                    return
            else:
                s2 = grpe.unify(g[2], c, s1)
                if s2 is not None:
                    yield s2
        return
    raise err(("existence_error", "procedure", ("/", f, n)))


def check_int(x):
    if isinstance(x, V):
        return
    if isinstance(x, bool) or not isinstance(x, int):
        raise err(("type_error", "integer", x))


# the order of the free variables inside the witness term is not fixed by the standard; it only
# matters (for the order of the groups) when there are two or more of them: both orders are computed
REVERSE_WITNESS = [False]
MULTI_WITNESS = [False]


def bagof(kind, T, G, L, s, env):
    if not partial_list_ok(L, s):
        raise err(("type_error", "list", grpe.resolve(L, s)))
    exv = []
    G = grpe.resolve(G, s)
    goal = G
    while isinstance(goal, tuple) and goal[0] == "^" and len(goal) == 3:
        grpe.term_vars(goal[1], exv)
        goal = goal[2]
    if isinstance(goal, V):
        raise err("instantiation_error")
    tv = grpe.term_vars(grpe.resolve(T, s))
    wit = [v for v in grpe.term_vars(goal) if v not in tv and v not in exv]
    if len(wit) >= 2:
        MULTI_WITNESS[0] = True
        if REVERSE_WITNESS[0]:
            wit = wit[::-1]
    W = mklist(wit)
    pairs = []
    for s1 in solve(goal, s, env):
        p = copy_term(("-", W, T), s1, env)
        pairs.append((p[1], p[2]))
    if not pairs:
        return
    if not wit:
        items = [t for _, t in pairs]
        if kind == "setof":
            items = grpe.sort_std(items, dedup=True, varkey=lambda v: str(v.n))
        s1 = grpe.unify(L, mklist(items), s)
        if s1 is not None:
            yield s1
        return
    # groups: witnesses that are variants of each other, in standard order of the witness.  The
    # variables of every witness are first aligned by position (as unify_variant_variables does:
    # the i-th variable of each witness is the same variable), then a stable sort by witness.
    keyed = [(grpe.canon(w), w, t) for (w, t) in pairs]
    import functools
    keyed.sort(key=functools.cmp_to_key(lambda p, q: grpe.compare(p[0], q[0], lambda v: v.n)))
    done = []
    for cw, w, _ in keyed:
        if cw in done:
            continue
        done.append(cw)
        grp = [(w2, t) for (cw2, w2, t) in keyed if cw2 == cw]
        s1 = s
        for w2, _ in grp:
            s1 = grpe.unify(w, w2, s1)
        items = [grpe.resolve(t, s1) for _, t in grp]
        if kind == "setof":
            items = grpe.sort_std(items, dedup=True, varkey=lambda v: str(v.n))
        s2 = grpe.unify(W, w, s1)
        if s2 is None:
            continue
        s3 = grpe.unify(L, mklist(items), s2)
        if s3 is not None:
            yield s3


def free_witness_count(T, G):
    exv = []
    goal = G
    while isinstance(goal, tuple) and goal[0] == "^" and len(goal) == 3:
        grpe.term_vars(goal[1], exv)
        goal = goal[2]
    tv = grpe.term_vars(T)
    return len([v for v in grpe.term_vars(goal) if v not in tv and v not in exv])


def run_variants(goal, names, cap=64):
    """-> list of acceptable (status, sols, ball)"""
    MULTI_WITNESS[0] = False
    REVERSE_WITNESS[0] = False
    out = [run(goal, names, cap)]
    if MULTI_WITNESS[0]:
        REVERSE_WITNESS[0] = True
        try:
            out.append(run(goal, names, cap))
        finally:
            REVERSE_WITNESS[0] = False
    return out


def run(goal, names, cap=64):
    """-> (status, [ {name: resolved term} ], ball or None)"""
    env = Env()
    sols = []
    try:
        for s in solve(goal, {}, env):
            sols.append({n: grpe.resolve(V(n), s) for n in names})
            if len(sols) >= cap:
                return "cap", sols, None
    except PThrow as e:
        return "exc", sols, e.ball
    return "done", sols, None
