"""Standard order of terms as the C13 statement defines it:

    Var < Float < Integer/Rational < Atom < Compound

Numbers of the same class by value, atoms by code-point sequence, compounds by
arity, then name, then arguments left to right; strings are the lists they
denote (the abstract terms of vx.core.terms have no separate string kind).

compare(a, b) returns '<', '=', '>' or '?'.  '?' means that the first
difference (pre-order, left to right) is a pair of *distinct variables*: their
relative order is implementation defined (address order), so either '<' or
'>' is acceptable -- but never '='.
"""
import math
from fractions import Fraction

from vx.core.terms import V

VAR, FLOAT, INT, ATOM, COMPOUND = 0, 1, 2, 3, 4


def cls(t):
    if isinstance(t, V):
        return VAR
    if isinstance(t, bool):
        raise TypeError(t)
    if isinstance(t, float):
        return FLOAT
    if isinstance(t, (int, Fraction)):
        return INT
    if isinstance(t, str):
        return ATOM
    if isinstance(t, tuple):
        return COMPOUND if len(t) > 1 else ATOM
    raise TypeError(repr(t))


def _c(x, y):
    return "<" if x < y else (">" if x > y else "=")


def atom_key(a):
    return [ord(c) for c in a]


def compare(a, b):
    stack = [(a, b)]
    while stack:
        x, y = stack.pop()
        cx, cy = cls(x), cls(y)
        if cx != cy:
            return _c(cx, cy)
        if cx == VAR:
            if x != y:
                return "?"
            continue
        if cx == FLOAT:
            r = _c(x, y)           # -0.0 and 0.0 compare equal by value
        elif cx == INT:
            r = _c(Fraction(x), Fraction(y))
        elif cx == ATOM:
            xa = x[0] if isinstance(x, tuple) else x
            ya = y[0] if isinstance(y, tuple) else y
            r = _c(atom_key(xa), atom_key(ya))
        else:
            r = _c(len(x) - 1, len(y) - 1)
            if r == "=":
                r = _c(atom_key(x[0]), atom_key(y[0]))
            if r == "=":
                for p in reversed(list(zip(x[1:], y[1:]))):
                    stack.append(p)
                continue
        if r != "=":
            return r
    return "="


def allowed(a, b):
    """set of acceptable compare/3 results"""
    r = compare(a, b)
    if r == "?":
        return {"<", ">"}
    return {r}


def flip(o):
    return {"<": ">", ">": "<", "=": "="}[o]


def sort_key_cmp(a, b):
    """total comparator for *ground* terms (functools.cmp_to_key)"""
    r = compare(a, b)
    if r == "?":
        raise ValueError("not ground")
    return {"<": -1, "=": 0, ">": 1}[r]


def predicate_truths(o):
    """truth values of  @<  @=<  @>  @>=  ==  \\==  given compare result o"""
    return [o == "<", o in "<=", o == ">", o in ">=", o == "=", o != "="]
