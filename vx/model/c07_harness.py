"""Execution + comparison helpers shared by C07 and C08: run programs of
c07_space on the implementation (batched consult, one driver step per query)
and on REF, and classify disagreements."""
import re

from vx.core import px, terms
from vx.core.terms import V, fmt
from vx.model import refprolog as R
from vx.model import c07_space as S

SOL_CAP = 64
REF_STEPS = 20000


def base_ref(quirks=()):
    return R.RefProlog(S.HELPER_CLAUSES, quirks=quirks)


def fork_ref(base, clauses, quirks=None):
    """a fresh interpreter = helper facts of base + the program's clauses"""
    return base.fork(clauses, quirks)


def ref_run(base, clauses, queries, quirks=None):
    """-> list of (answers, status, stats) per query"""
    out = []
    r = fork_ref(base, clauses, quirks)
    for q in queries:
        ans, st = r.solve(q, SOL_CAP, REF_STEPS)
        out.append((ans, st, r.stats))
    return out


def clause_text(c):
    return fmt(c) + ".\n"


def impl_answers(res, qvars):
    """px.Res -> (answers as canon tuples, status) in REF's format; status 'exc' -> ('exc', ball)"""
    ans = []
    for d in res.sols:
        try:
            ans.append(R.canon([d[v.n] for v in qvars]))
        except KeyError:
            ans.append(("?missing-binding",))
    if res.abn:
        return ans, ("abn", res.abn)
    if res.status == "exc":
        return ans, ("exc", R.canon(res.exc))
    return ans, res.status


def same_answers(a, b):
    if len(a) != len(b):
        return False
    for x, y in zip(a, b):
        if len(x) != len(y):
            return False
        for s, t in zip(x, y):
            if not R.same(s, t):
                return False
    return True


def same_status(ref_st, impl_st):
    if isinstance(ref_st, tuple) and ref_st[0] == "exc":
        if not (isinstance(impl_st, tuple) and impl_st[0] == "exc"):
            return False
        # compare the formal of ISO errors, the whole ball otherwise (context never)
        return R.same(R.canon(R.formal_of(ref_st[1])), R.canon(R.formal_of(impl_st[1])))
    return ref_st == impl_st


def same_result(ref_res, impl_res):
    return same_answers(ref_res[0], impl_res[0]) and same_status(ref_res[1], impl_res[1])


def show_result(res):
    ans, st = res[0], res[1]
    if isinstance(st, tuple):
        st = "%s:%s" % (st[0], terms.show(st[1]) if st[0] == "exc" else st[1])
    return {"answers": ["(" + ", ".join(terms.show(x) for x in a) + ")" for a in ans], "status": st}


def kind_of(ref_res, impl_res):
    """kind of disagreement (part of the violation signature)"""
    ra, rs = ref_res[0], ref_res[1]
    ia, is_ = impl_res[0], impl_res[1]
    if isinstance(is_, tuple) and is_[0] == "abn":
        return "abnormal:" + is_[1]
    if not same_status(rs, is_):
        if isinstance(is_, tuple) and is_[0] == "exc":
            return "unexpected-exception:" + px.formal_sig(R.formal_of(is_[1]))
        if isinstance(rs, tuple) and rs[0] == "exc":
            return "missing-exception:" + px.formal_sig(R.formal_of(rs[1]))
        return "status:%s-for-%s" % (is_, rs)
    if len(ia) < len(ra):
        # is the observed sequence a subsequence of the expected one?
        return "missing-solutions" if _subseq(ia, ra) else "missing-and-different-solutions"
    if len(ia) > len(ra):
        return "extra-solutions" if _subseq(ra, ia) else "extra-and-different-solutions"
    if sorted(map(repr, ia)) == sorted(map(repr, ra)):
        return "order"
    return "wrong-bindings"


def _subseq(a, b):
    i = 0
    for y in b:
        if i < len(a) and same_answers([a[i]], [y]):
            i += 1
    return i == len(a)


QUIRK_SETS = [("body_cond_cut",), ("call_ite_cond_cut",), ("body_cond_cut", "call_ite_cond_cut"),
              ("body_cond_cut", "not_cut_free"), ("body_cond_cut", "not_cut_free", "call_ite_cond_cut")]


def explain(base, clauses, query, impl_res):
    """is the observation exactly what a known deviation model predicts?
    -> name of the smallest quirk set that explains it, or None"""
    for qs in QUIRK_SETS:
        r = fork_ref(base, clauses, qs)
        ans, st = r.solve(query, SOL_CAP, REF_STEPS)
        if same_result((ans, st), impl_res):
            return "+".join(qs)
    return None


class Batch(object):
    """consults a list of (suffix, clauses) on the worker; isolates programs whose consult fails"""

    def __init__(self, worker):
        self.w = worker
        self.failed = {}   # suffix -> consult output

    def consult(self, items, directives=""):
        text = directives + "".join("".join(clause_text(S.rename_term(c, suf)) for c in cl) for suf, cl in items)
        r = self.w.consult(text)
        out = (r.get("out") or "") + (r.get("err") or "")
        if "error(" in out or r.get("panic"):
            # a load error aborts the rest of the text: reload program by program
            for suf, cl in items:
                t = directives + "".join(clause_text(S.rename_term(c, suf)) for c in cl)
                r1 = self.w.consult(t)
                o1 = (r1.get("out") or "") + (r1.get("err") or "")
                if "error(" in o1 or r1.get("panic"):
                    self.failed[suf] = strip_warnings(o1) or str(r1.get("panic"))


def strip_warnings(out):
    lines = [l.strip() for l in out.splitlines() if l.strip() and not l.strip().startswith("% Warning")]
    return re.sub(r"\d+", "N", " ".join(lines))[:200]
