#!/usr/bin/env python3
"""tools/suitelog_green.py <out-dir>: decides from a nextest log (profile pb prints only the tests that did
not pass) whether every test of BASELINE.json's stable_pass passed; rewrites confirm.json there."""
import json, re, sys, os
O = sys.argv[1]
log = open(os.path.join(O, "suite.log"), errors="replace").read()
want = set(json.load(open('/root/.vp/BASELINE.json'))['stable_pass'])
m = re.search(r"Summary \[[^\]]*\]\s+(\d+) tests run: (\d+) passed", log)
bad = set()
for mm in re.finditer(r"^\s*(?:FAIL|TIMEOUT|SIGABRT|SIGSEGV|LEAK-FAIL|ABORT)\s+\[[^\]]*\]\s+(?:\(\S+\)\s+)?(\S+)\s+(\S+)", log, re.M):
    bad.add(mm.group(1).replace("::", "::", 1) + "::" + mm.group(2))
ran, passed = (int(m.group(1)), int(m.group(2))) if m else (0, 0)
# names in the log look like "scryer-prolog::scryer cli_tests" -> classname::name
bad_stable = sorted(b for b in bad if b in want or any(w.endswith("::" + b.split("::")[-1]) for w in want))
green = bool(m) and ran >= 109 and not bad_stable and (ran - passed) == len(bad)
p = os.path.join(O, "confirm.json")
d = json.load(open(p)) if os.path.exists(p) else {"id": os.path.basename(O)}
d["stable_not_passing"] = bad_stable
d["suite_green"] = green
d["suite_summary"] = "%d tests run, %d passed; not passed: %s" % (ran, passed, sorted(bad))
json.dump(d, open(p, "w"), indent=1)
print(os.path.basename(O), green, d["suite_summary"])
