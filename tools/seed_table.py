#!/usr/bin/env python3
"""prints the markdown table of §13 from seeded/*/meta.json"""
import glob, json, os
rows = []
for f in sorted(glob.glob("/verif/seeded/*/meta.json")):
    m = json.load(open(f))
    name = os.path.basename(os.path.dirname(f))
    def c(s, n):
        return " ".join(str(s).replace("|", "\\|").split())[:n]
    cc = m.get("confirmed_by_coordinator") or {}
    sr = cc.get("suite_rerun")
    if isinstance(sr, dict):
        suite = ("green" if sr.get("green") else "NOT green: %s" % ", ".join(sr.get("stable_not_passing") or ["?"])) + " (re-run)"
    elif isinstance(sr, str):
        suite = "not re-run: patch no longer applies to HEAD"
    elif cc.get("suite_summary") or "suite_green_with_change" in cc:
        suite = "green" if cc.get("suite_green_with_change") else "see meta.json"
    else:
        suite = "-"
    note = m.get("note") or ""
    res = m.get("check_result") or m.get("detected_by", "")
    if res in ("yes", "no") and note:
        res = note
    rows.append("| %s | %s | %s | %s | %s | %s |" % (name, m.get("property"), c(m.get("what", ""), 260), c(m.get("needs_to_manifest", ""), 220), c(res, 260), c(suite, 120)))
print("| seeded change | property | what was changed | what it needs to manifest | result of the checks | repository suite with the change |")
print("|---|---|---|---|---|---|")
print("\n".join(rows))
