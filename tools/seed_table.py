#!/usr/bin/env python3
"""prints the markdown table of §13 from seeded/*/meta.json"""
import glob, json, os
rows = []
for f in sorted(glob.glob("/verif/seeded/*/meta.json")):
    m = json.load(open(f))
    name = os.path.basename(os.path.dirname(f))
    def c(s, n):
        return " ".join(str(s).replace("|", "\\|").split())[:n]
    rows.append("| %s | %s | %s | %s | %s |" % (name, m.get("property"), c(m.get("what", ""), 260), c(m.get("needs_to_manifest", ""), 220), c(m.get("check_result") or m.get("detected_by", ""), 260)))
print("| seeded change | property | what was changed | what it needs to manifest | result of the checks |")
print("|---|---|---|---|---|")
print("\n".join(rows))
