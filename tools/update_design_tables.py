#!/usr/bin/env python3
"""regenerates the tables between the BEGIN/END markers of DESIGN.md §12 and §13"""
import re, subprocess
p = "/verif/DESIGN.md"
s = open(p).read()
f = subprocess.run(["python3", "/verif/tools/findings_table.py"], capture_output=True, text=True).stdout
t = subprocess.run(["python3", "/verif/tools/seed_table.py"], capture_output=True, text=True).stdout
s = re.sub(r"<!-- BEGIN:findings -->.*?<!-- END:findings -->", lambda m: "<!-- BEGIN:findings -->\n" + f + "\n<!-- END:findings -->", s, flags=re.S)
s = re.sub(r"<!-- BEGIN:seeds -->.*?<!-- END:seeds -->", lambda m: "<!-- BEGIN:seeds -->\n" + t + "\n<!-- END:seeds -->", s, flags=re.S)
open(p, "w").write(s)
print("updated")
