#!/usr/bin/env python3
"""tools/seedsave.py <m-dir> <ID> <name> <detected: yes|no|other:IDs> [note]
copies a confirmed seeded change into /verif/seeded/<name>/ and writes meta.json"""
import json, os, shutil, sys, glob
m, pid, name, detected = sys.argv[1:5]
note = sys.argv[5] if len(sys.argv) > 5 else ""
src = os.path.join(m, "out", pid)
dst = os.path.join("/verif/seeded", name)
os.makedirs(dst, exist_ok=True)
for f in os.listdir(src):
    if f in ("suite.log", "test.log") or f.startswith("base-bin"):
        continue
    p = os.path.join(src, f)
    if os.path.isfile(p) and os.path.getsize(p) < 200000:
        shutil.copy(p, os.path.join(dst, f))
meta = {}
try:
    meta = json.load(open(os.path.join(src, "meta.json")))
except Exception:
    pass
conf = {}
try:
    conf = json.load(open(os.path.join(src, "confirm.json")))
except Exception:
    pass
out = {
    "property": pid,
    "what": meta.get("what", ""),
    "needs_to_manifest": meta.get("needs_to_manifest", ""),
    "author": "independent sub-agent given only the property text and its own scratch worktree (%s)" % m,
    "authors_runs": meta.get("ran", ""),
    "confirmed_by_coordinator": {
        "how": "tools/seedconfirm.sh: patch applied in the scratch worktree, debug build, demonstration run with and without the change, repository suite (cargo nextest, profile pb) compared with BASELINE.json stable_pass",
        "suite_green_with_change": conf.get("suite_green"),
        "stable_tests_not_passing": conf.get("stable_not_passing"),
        "demo_without_change": conf.get("demo_without_change"),
        "demo_with_change": conf.get("demo_with_change"),
    },
    "check_result": detected,
    "note": note,
}
json.dump(out, open(os.path.join(dst, "meta.json"), "w"), indent=1)
print("saved", dst)
