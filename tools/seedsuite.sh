#!/bin/sh
# usage: tools/seedsuite.sh <m-dir> <seed-name>
# Re-runs the repository suite (without the always-failing cli_tests) on a saved seeded change applied to the
# scratch worktree <m-dir>/repo at its current HEAD and records the verdict in seeded/<name>/meta.json.
M=$1; N=$2; R=$M/repo; T=$M/target; P=/verif/seeded/$N/patch.diff
mkdir -p $M/resuite; O=$M/resuite/$N; mkdir -p $O
cd $R || exit 2
git checkout -q -- . 2>/dev/null
export CARGO_TARGET_DIR=$T
if git apply --check $P 2>/dev/null; then git apply $P; applied=plain
elif git apply --3way $P >/dev/null 2>&1 && [ -z "$(git diff --name-only --diff-filter=U)" ]; then applied=3way
else
  git checkout -q -- . ; git reset -q --hard HEAD
  python3 - "$N" <<'PY'
import json,sys
p="/verif/seeded/%s/meta.json"%sys.argv[1]
m=json.load(open(p)); m.setdefault("confirmed_by_coordinator",{})["suite_rerun"]="patch no longer applies to the current HEAD (later fix: commits touch the same lines); not re-run"
json.dump(m,open(p,"w"),indent=1); print(sys.argv[1],"NOAPPLY")
PY
  exit 0
fi
cargo nextest run --workspace --no-fail-fast --tool-config-file pb:/w/lib/nextest.toml --profile pb --test-threads 6 --offline -E 'not test(cli_tests)' > $O/suite.log 2>&1
git checkout -q -- . ; git reset -q --hard HEAD
python3 /verif/tools/suitelog_green.py $O > $O/verdict.txt 2>&1
python3 - "$N" "$O" "$applied" <<'PY'
import json,sys
n,o,ap=sys.argv[1:4]
c=json.load(open(o+"/confirm.json"))
p="/verif/seeded/%s/meta.json"%n
m=json.load(open(p))
m.setdefault("confirmed_by_coordinator",{})["suite_rerun"]={"green":c["suite_green"],"summary":c["suite_summary"],"stable_not_passing":c["stable_not_passing"],"patch_applied":ap,"how":"tools/seedsuite.sh: nextest profile pb without cli_tests (always_fail), verdict read from the run's own log"}
json.dump(m,open(p,"w"),indent=1)
print(n,c["suite_green"],c["suite_summary"])
PY
