#!/bin/sh
# usage: tools/seedconfirm.sh <m-dir e.g. /var/tmp/mut/m1> <ID>
# (nextest writes its junit report under <workspace>/target/nextest, not under CARGO_TARGET_DIR)
# Confirms a seeded change independently in the seeding agent's scratch worktree: applies out/<ID>/patch.diff,
# builds, runs the repository's stable suite (must stay green) and the demonstration (must fail with the
# change, pass without). Writes <m-dir>/out/<ID>/confirm.json.
M=$1; ID=$2
SUB=${3:-out}; R=$M/repo; T=$M/target; O=$M/$SUB/$ID
cd $R || exit 2
git checkout -q -- . 2>/dev/null
export CARGO_TARGET_DIR=$T
# --- without the change
cargo build --offline >/dev/null 2>&1 || { echo "{\"id\":\"$ID\",\"error\":\"clean build failed\"}" > $O/confirm.json; exit 1; }
cp $T/debug/scryer-prolog $M/base-bin-$ID
demo_clean="n/a"
if [ -f $O/demo.pl ]; then demo_clean=$(cd $O && timeout 300 $M/base-bin-$ID demo.pl </dev/null 2>&1 | tail -3 | tr '\n' ' ' | cut -c1-300); fi
# --- with the change
git apply $O/patch.diff || { echo "{\"id\":\"$ID\",\"error\":\"patch does not apply\"}" > $O/confirm.json; exit 1; }
cargo build --offline >/dev/null 2>&1 || { git checkout -q -- .; echo "{\"id\":\"$ID\",\"error\":\"patched build failed\"}" > $O/confirm.json; exit 1; }
demo_mut="n/a"
if [ -f $O/demo.pl ]; then demo_mut=$(cd $O && timeout 300 $T/debug/scryer-prolog demo.pl </dev/null 2>&1 | tail -3 | tr '\n' ' ' | cut -c1-300); fi
rm -f $R/target/nextest/pb/junit.xml $T/nextest/pb/junit.xml
# cli_tests is on the baseline's always-fail list and only burns its 300 s timeout
cargo nextest run --workspace --no-fail-fast --tool-config-file pb:/w/lib/nextest.toml --profile pb --test-threads 8 --offline -E 'not test(cli_tests)' > $O/suite.log 2>&1
python3 - "$R/target" "$ID" "$demo_clean" "$demo_mut" "$O" <<'PY'
import json, sys, xml.etree.ElementTree as ET
T, ID, dc, dm, O = sys.argv[1:6]
want = set(json.load(open('/root/.vp/BASELINE.json'))['stable_pass'])
passed = set()
try:
    for tc in ET.parse(T + '/nextest/pb/junit.xml').iter('testcase'):
        if tc.find('failure') is None and tc.find('error') is None:
            passed.add(tc.get('classname', '') + '::' + tc.get('name', ''))
except Exception as e:
    passed = set()
missing = sorted(w for w in want if w not in passed)
res = {"id": ID, "stable_not_passing": missing, "suite_green": not missing and len(passed) > 0,
       "demo_without_change": dc, "demo_with_change": dm}
json.dump(res, open(O + '/confirm.json', 'w'), indent=1)
print(json.dumps(res)[:600])
PY
git checkout -q -- .
