#!/bin/sh
# validates MANIFEST.json and all evidence files against the schemas
cd "$(dirname "$0")/.." && python3-vt - <<'PY'
import json, jsonschema, glob
jsonschema.validate(json.load(open('MANIFEST.json')), json.load(open('/root/.vp/MANIFEST.schema.json')))
es = json.load(open('/root/.vp/EVIDENCE.schema.json'))
bad = 0
for f in sorted(glob.glob('evidence/C*.json')):
    try:
        jsonschema.validate(json.load(open(f)), es)
    except Exception as e:
        bad += 1; print("INVALID", f, str(e)[:300])
print("manifest valid; evidence files:", len(glob.glob('evidence/C*.json')), "invalid:", bad)
PY
