#!/usr/bin/env python3
"""Regenerates MANIFEST.json from the property modules' metadata.
A property with no module (or a module with CLAIMED = False) is listed under
not_applicable with the module's NOT_APPLICABLE_REASON or a default."""
import importlib
import json
import os
import sys

ROOT = os.path.dirname(os.path.dirname(os.path.abspath(__file__)))
sys.path.insert(0, ROOT)

BASELINE = ("cd /repo && cargo nextest run --workspace --no-fail-fast --tool-config-file pb:/w/lib/nextest.toml "
            "--profile pb --test-threads 8 --offline || cargo test --workspace --no-fail-fast --offline")


def main():
    props = [json.loads(l) for l in open(os.path.join(ROOT, "properties.jsonl"))]
    # only properties the coordinator has reviewed and run are claimed
    claimed = set(open(os.path.join(ROOT, "tools", "claimed.txt")).read().split())
    checks, na = [], []
    engines = {}
    for p in props:
        pid = p["id"]
        try:
            m = importlib.import_module("vx.props." + pid)
        except ImportError:
            m = None
        if pid not in claimed:
            m = None
        if m is None or not getattr(m, "CLAIMED", True):
            na.append({"property_id": pid,
                       "reason": getattr(m, "NOT_APPLICABLE_REASON", "check not built yet in this session (see DESIGN.md §6 for the planned bounded exhaustive check)")})
            continue
        eng = getattr(m, "ENGINE", "PEX")
        engines.setdefault(eng, []).append(pid)
        c = {
            "property_id": pid,
            "quick_cmd": "./check %s --tier quick" % pid,
            "thorough_cmd": "./check %s --tier thorough" % pid,
            "evidence_file": "/verif/evidence/%s.json" % pid,
            "replay_cmd_template": "./check %s --replay {path}" % pid,
            "engine": eng,
            "level_claimed": {
                "category": getattr(m, "LEVEL", "exploration"),
                "text": getattr(m, "LEVEL_TEXT", getattr(m, "RULE", "")),
                "design_ref": "DESIGN.md §6 " + pid,
            },
            "level_note": "; ".join(getattr(m, "ASSUMPTIONS", [])) or "reference model and transport are trusted",
            "technique": getattr(m, "TECHNIQUE", "bounded exhaustive enumeration of inputs executed on the real implementation, compared with a reference model"),
        }
        checks.append(c)
    eng_desc = {
        "PEX": ("vx/core + harness/src/bin/pworker.rs", "Python explorer enumerating a bounded space; every case executed on a real Machine hosted by pworker; oracle in Python"),
        "RMC-char": ("harness/src/bin/mc_char.rs", "in-process exhaustive explorer of the real CharReader over all chunk partitions and consumption policies"),
        "RMC-heap": ("harness/src/bin/mc_heap.rs", "in-process exhaustive explorer of real Heap operation sequences under a red-zone allocator"),
        "RMC-sched": ("harness/src/bin/mc_atoms.rs", "controlled-scheduler (baton) exploration of real AtomTable::build_with interleavings, preemption bounded"),
        "FLT": ("vx/core/flt.py + pworker", "fault / interrupt point enumeration through the verif-hooks counters"),
        "WRK-api": ("pworker api op", "explicit-state search over embedding-API histories on fresh Machines"),
    }
    man = {
        "version": 1,
        "setup_cmd": "./check --setup",
        "hooks": {
            "guard": "cargo feature verif-hooks",
            "enable": "harness/Cargo.toml depends on scryer-prolog = { path = \"/repo\", features = [\"verif-hooks\"] }; ./check rebuilds it with CARGO_TARGET_DIR=/verif/.build",
            "baseline_off_cmd": BASELINE,
            "source_commits": json.load(open(os.path.join(ROOT, "tools", "hook_commits.json"))),
            "add_only": True,
        },
        "engines": [{"name": k, "path": eng_desc.get(k, ("vx/props", ""))[0], "serves_properties": sorted(v),
                     "kind_free_text": eng_desc.get(k, ("", k))[1]} for k, v in sorted(engines.items())],
        "checks": checks,
        "not_applicable": na,
        "notes": "Every check is a bounded exhaustive exploration executed on the real implementation (see DESIGN.md). Exit 2 = machinery failure (never a verdict).",
    }
    with open(os.path.join(ROOT, "MANIFEST.json"), "w") as f:
        json.dump(man, f, indent=1)
    print("checks: %d, not_applicable: %d" % (len(checks), len(na)))


main()
