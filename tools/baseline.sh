#!/bin/sh
# Runs the repository's baseline suite (hooks OFF) and compares with BASELINE.json's stable_pass list.
cd /repo && cargo nextest run --workspace --no-fail-fast --tool-config-file pb:/w/lib/nextest.toml --profile pb --test-threads 8 --offline > /verif/work/baseline.log 2>&1
python3 - <<'PY'
import json, xml.etree.ElementTree as ET, glob
base = json.load(open('/root/.vp/BASELINE.json'))
want = set(base['stable_pass'])
f = '/repo/target/nextest/pb/junit.xml'
t = ET.parse(f)
passed = set(); failed = set()
for tc in t.iter('testcase'):
    name = tc.get('classname','') + '::' + tc.get('name','')
    n2 = 'scryer-prolog::' + tc.get('name','') if not name.startswith('scryer-prolog') else name
    ok = tc.find('failure') is None and tc.find('error') is None
    for cand in (name, n2, tc.get('classname','').replace('::','::')+'::'+tc.get('name','')):
        pass
    (passed if ok else failed).add((tc.get('classname',''), tc.get('name','')))
def key(c, n):
    return c + '::' + n
names_pass = set(key(c, n) for c, n in passed)
names_fail = set(key(c, n) for c, n in failed)
missing = sorted(w for w in want if w not in names_pass)
print("passed", len(names_pass), "failed", len(names_fail), "baseline", len(want), "baseline tests not passing:", len(missing))
for m in missing[:40]: print("  NOT PASSING:", m)
PY
