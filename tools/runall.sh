#!/bin/sh
# usage: tools/runall.sh quick|thorough ID...   -> one summary line per check
tier=$1; shift
cd "$(dirname "$0")/.."
for id in "$@"; do
  s=$(date +%s)
  out=$(./check $id --tier $tier --no-build 2>&1); rc=$?
  e=$(date +%s)
  nk=$(echo "$out" | grep -c "^KNOWN-FINDING")
  nv=$(echo "$out" | grep -c "^VIOLATION")
  echo "$id rc=$rc wall=$((e-s))s known=$nk viol=$nv :: $(echo "$out" | grep "tier=" | head -1 | cut -c1-120) $(echo "$out" | grep MACHINERY | head -1 | cut -c1-200)"
done
