#!/usr/bin/env python3
"""prints the markdown tables of §12 (defects found) from known_findings.json and known_findings.d/*.json"""
import glob, json, os
ROOT = os.path.dirname(os.path.dirname(os.path.abspath(__file__)))
ents = []
for f in [os.path.join(ROOT, "known_findings.json")] + sorted(glob.glob(os.path.join(ROOT, "known_findings.d", "*.json"))):
    ents += json.load(open(f)).get("findings", [])
def clean(s):
    return " ".join(str(s).replace("|", "\\|").split())
fixed = [e for e in ents if e.get("status") == "fixed"]
open_ = [e for e in ents if e.get("status") == "open"]
print("### 12.1 Repaired (%d `fix:` commits in /repo; a fixed entry suppresses nothing)\n" % len(set(e.get("commit") for e in fixed)))
print("| finding | property | commit | what failed |")
print("|---|---|---|---|")
for e in sorted(fixed, key=lambda e: (e["property"], e["id"])):
    w = clean(e.get("what", ""))
    print("| %s | %s | %s | %s |" % (e["id"], e["property"], e.get("commit", ""), w[:400]))
print("\n### 12.2 Recorded, not repaired (%d open known findings)\n" % len(open_))
print("| finding | property | what fails (failing input) | suspected site |")
print("|---|---|---|---|")
for e in sorted(open_, key=lambda e: (e["property"], e["id"])):
    print("| %s | %s | %s | %s |" % (e["id"], e["property"], clean(e.get("what", ""))[:500], clean(e.get("suspected_site", ""))[:200]))
