#!/usr/bin/env python3
"""prints the prompt for a seeding sub-agent: tools/mutprompt.py m1 C33 C18 C21"""
import json, sys
name = sys.argv[1]; ids = sys.argv[2:]
props = {json.loads(l)["id"]: json.loads(l) for l in open("/verif/properties.jsonl")}
out = []
out.append("""You are testing how well a project's safety net catches subtle regressions in mthom/scryer-prolog (an ISO Prolog implementation in Rust: WAM compiler, bytecode dispatch loop, heap, parser, bignum arithmetic, Prolog libraries under src/lib/*.pl). You have your own scratch git worktree of the repository at /var/tmp/mut/%(n)s/repo (work ONLY there; never touch /repo itself, and do not read or use anything under /verif — your work must be independent of it). Use CARGO_TARGET_DIR=/var/tmp/mut/%(n)s/target for every cargo command (it is pre-seeded with a debug build to save time) and always pass --offline (there is no network). Always run binaries with a timeout and stdin from /dev/null.

For EACH of the semantic properties below, produce ONE realistic change to scryer-prolog's source (Rust under src/ or the Prolog libraries under src/lib/, src/loader.pl, src/toplevel.pl) that BREAKS the property while (a) still compiling, and (b) still passing the repository's existing test suite. The change must look like a plausible mistake or "optimisation" a developer could make in the code that implements the property (an off-by-one in a bound or cursor, a dropped special case, a check done before instead of after, a wrong comparison direction, state not restored on one path, two sites that each look fine alone) — not the deletion of a whole feature and not something that ordinary use would expose at once. Prefer changes that need something specific to manifest: a particular interleaving, a fault at a particular point, a multi-step sequence of operations, an unusual boundary input. Keep each change small (a few lines).

For each property deliver, under /var/tmp/mut/%(n)s/out/<property id>/ :
  - patch.diff : `git diff` of your change against the worktree's HEAD (exactly one property's change per patch; reset the worktree with `git checkout -- .` between properties);
  - a demonstration that FAILS with the change and PASSES without it: a small Prolog file demo.pl run as `timeout 60 /var/tmp/mut/%(n)s/target/debug/scryer-prolog demo.pl </dev/null` (make it print PASS or FAIL and call halt; beware that a syntax error drops into an interactive toplevel, hence the timeout and /dev/null), or, when the property cannot be reached from Prolog (threads, embedding API, internal buffers), a Rust test added in a separate file demo_test.rs with instructions how to run it; say in meta.json how to run it and what output to expect in both cases;
  - meta.json : {"property": id, "what": one paragraph describing the change, "needs_to_manifest": what specific input/sequence/interleaving/fault is needed, "ran": the commands you ran and their results (build, the repository tests, the demo with and without the change)}.

How to build and test: `cd /var/tmp/mut/%(n)s/repo && CARGO_TARGET_DIR=/var/tmp/mut/%(n)s/target cargo build --offline` builds target/debug/scryer-prolog (first build of the worktree recompiles the crate, a few minutes). The repository's stable test suite is the list "stable_pass" in /root/.vp/BASELINE.json (109 tests; `cli_tests` and the `issue_*` file-system tests listed under always_fail fail in this sandbox even on the unchanged tree — ignore those). Run it with `cd /var/tmp/mut/%(n)s/repo && CARGO_TARGET_DIR=/var/tmp/mut/%(n)s/target cargo test --offline --no-fail-fast 2>&1 | tail -60` (takes 10-20 minutes; the machine is shared, be patient; run it once per change, after you have convinced yourself with the demo). A change that makes any of the 109 stable tests fail is not acceptable: pick a different change. Unit tests live in the src files (#[cfg(test)]) and integration tests under tests/ (tests/scryer/, with Prolog files under tests-pl/ and src/tests/).

The properties (work through them in this order; each must get its own independent change):
""" % {"n": name})
for i in ids:
    p = props[i]
    out.append("=== Property %s: %s ===\nStatement: %s\nQuantifier: %s\nWhere it lives (anchors): files %s; mechanisms: %s\n" % (
        i, p["title"], p["statement"], p["quantifier"]["text"], ", ".join(p["anchors"]["files"]),
        "; ".join("%s (%s)" % (m.get("name"), m.get("where")) for m in p["anchors"].get("mechanism", []))))
out.append("""When done, reply with a short report: per property the one-line description of the change, the files touched, what is needed for it to manifest, and the outcome of the test suite and of the demo with/without the change. If for some property you cannot find a change that keeps the test suite green within a reasonable effort, say so and explain what you tried.""")
print("\n".join(out))
