#!/bin/sh
# usage: tools/seedcheck.sh <patch.diff> <ID> [ID...]
# Applies the patch to the scratch worktree /var/tmp/seed/repo (reset to /repo's HEAD first), rebuilds the scratch
# harness and runs the quick checks against it. Evidence and replays of these runs go to /var/tmp/seed/out.
set -e
patch=$(readlink -f "$1"); shift
S=${SEEDENV:-/var/tmp/seed}
head=$(git -C /repo rev-parse HEAD)
git -C $S/repo checkout -q --detach $head 2>/dev/null || { git -C $S/repo checkout -q -- . ; git -C $S/repo checkout -q --detach $head; }
git -C $S/repo checkout -q -- .
[ -s "$patch" ] && git -C $S/repo apply "$patch"; true
rsync -a --delete --exclude Cargo.toml /verif/harness/ $S/harness/
sed "s#path = \"/repo\"#path = \"$S/repo\"#" /verif/harness/Cargo.toml > $S/harness/Cargo.toml
mkdir -p $S/out/evidence $S/out/replays
cd /verif
for id in "$@"; do
  echo "=== $id on $(basename $(dirname $patch))"
  set +e
  VX_BUILD=$S/target VX_HARNESS=$S/harness VX_EVID=$S/out/evidence VX_REPLAYS=$S/out/replays ./check $id --tier quick > $S/out/$id.log 2>&1
  rc=$?
  set -e
  grep -v "^KNOWN-FINDING" $S/out/$id.log | tail -8 | cut -c1-400
  echo "rc=$rc"
done
git -C $S/repo checkout -q -- .
